// vcheck drives one property check: it rebuilds the harness from /repo's current working
// tree (vrewrite + go build -overlay), runs the property's units in parallel worker
// processes, classifies violations against /verif/known_findings.jsonl, writes
// /verif/evidence/<id>.json and prints KNOWN-FINDING / VIOLATION lines.
//
// exit 0: property held on everything explored (or only known findings were re-observed)
// exit 1: a violation that is not a listed known finding
// exit 2: harness error (never a verdict)
package main

import (
	"bufio"
	"context"
	"crypto/sha1"
	"encoding/json"
	"flag"
	"fmt"
	"os"
	"os/exec"
	"path/filepath"
	"sort"
	"strconv"
	"strings"
	"sync"
	"time"
)

// verif is the root of the verification tree: the directory above bin/ of this executable
// (so that a snapshot started with `vp run` stays inside its snapshot), else /verif.
var verif = func() string {
	if exe, err := os.Executable(); err == nil {
		if d := filepath.Dir(filepath.Dir(exe)); fileExists(filepath.Join(d, "MANIFEST.json")) {
			return d
		}
	}
	return "/verif"
}()

// outRoot: where evidence and replay artefacts go. Runs against another tree than /repo
// (VERIF_REPO, i.e. mutant trials) must not overwrite the evidence of the real tree.
func outRoot() string {
	if os.Getenv("VERIF_REPO") != "" {
		return filepath.Join(verif, ".work", "alt-tree")
	}
	if partialRun {
		return filepath.Join(verif, ".work", "partial")
	}
	return verif
}

// partialRun: a debugging run restricted to some units (--only) or cut short
// (--stop-on-violation) must not replace the evidence of the last complete run.
var partialRun bool

func fileExists(p string) bool { _, err := os.Stat(p); return err == nil }

// repo is the tree the checks are built from: /repo, unless VERIF_REPO names another
// checkout (used by tools/trymutant.sh to test a patched scratch worktree without touching /repo).
var repo = func() string {
	if r := os.Getenv("VERIF_REPO"); r != "" {
		return r
	}
	return "/repo"
}()

type unitInfo struct {
	Name   string `json:"name"`
	Weight int    `json:"weight"`
	Shards int    `json:"shards"`
	shard  int
}

type violation struct {
	Property string   `json:"property"`
	Clause   string   `json:"clause"`
	Sig      string   `json:"sig"`
	Detail   string   `json:"detail"`
	Scenario string   `json:"scenario"`
	Choices  []int    `json:"choices"`
	W        []uint64 `json:"w,omitempty"`
	Trace    []string `json:"trace"`
	Preempt  int      `json:"preemptions"`
	Confirm  int      `json:"confirmed_replays"`
	Input    any      `json:"input,omitempty"`
}

type unitResult struct {
	Unit       string         `json:"unit"`
	Shard      string         `json:"shard,omitempty"`
	Stats      map[string]any `json:"stats"`
	Violations []violation    `json:"violations"`
	SigCounts  map[string]int `json:"sig_counts"`
	Goals      []string       `json:"goals"`
	Required   []string       `json:"required_goals,omitempty"`
	ReqProp    string         `json:"req_prop,omitempty"`
	ReqMsg     string         `json:"req_msg,omitempty"`
	HarnessErr string         `json:"harness_error,omitempty"`
	Extra      map[string]any `json:"extra,omitempty"`
}

type known struct {
	Property string `json:"property"`
	Sig      string `json:"sig"`
	Status   string `json:"status"` // known | fixed
	What     string `json:"what"`
	Commit   string `json:"commit,omitempty"`
	Line     string `json:"line,omitempty"`
}

// per-property configuration
type propCfg struct {
	Level     string // evidence level
	Race      bool
	NeedsCLI  bool
	QuickS    float64 // per-unit deadline, quick
	ThoroughS float64
	Rule      string
}

var props = map[string]propCfg{}

func env(work string, extra ...string) []string {
	e := []string{"VERIF_ARGVDUMP=" + filepath.Join(verif, "bin", "argvdump"), "PATH=/usr/local/go/bin:/usr/bin:/bin:" + filepath.Dir(goBin()), "HOME=" + work, "VERIF_WORK=" + filepath.Join(work, "w"), "GOMAXPROCS=1", "GOGC=800", "VERIF_FREE_RUNS=8", "TMPDIR=" + filepath.Join(work, "w")}
	return append(e, extra...)
}

var goBinCache string

func goBin() string {
	if goBinCache == "" {
		p, err := exec.LookPath("go")
		if err != nil {
			p = "/usr/local/go/bin/go"
		}
		goBinCache = p
	}
	return goBinCache
}

func buildEnv() []string {
	return append(os.Environ(), "GOFLAGS=-mod=mod", "GOPROXY=off", "GOSUMDB=off", "GOTOOLCHAIN=local")
}

func run(dir string, envv []string, name string, args ...string) (string, error) {
	c := exec.Command(name, args...)
	c.Dir = dir
	c.Env = envv
	out, err := c.CombinedOutput()
	return string(out), err
}

func fatal(code int, f string, a ...any) {
	fmt.Fprintf(os.Stderr, "vcheck: "+f+"\n", a...)
	os.Exit(code)
}

func main() {
	if len(os.Args) < 2 {
		fatal(2, "usage: vcheck <property> [--tier quick|thorough] | vcheck replay <file> | vcheck build <dir>")
	}
	if os.Args[1] == "replay" {
		os.Exit(replay(os.Args[2]))
	}
	if os.Args[1] == "warm" {
		// pre-warm the Go build cache: plain harness, race harness, CLI binary
		work := filepath.Join(verif, ".work", fmt.Sprintf("warm-%d", os.Getpid()))
		must(os.MkdirAll(filepath.Join(work, "w"), 0o755))
		defer os.RemoveAll(work)
		if _, _, err := build(work, false, true); err != nil {
			os.RemoveAll(work)
			fatal(2, "%v", err)
		}
		if _, _, err := build(work, true, false); err != nil {
			os.RemoveAll(work)
			fatal(2, "%v", err)
		}
		return
	}
	prop := os.Args[1]
	fs := flag.NewFlagSet("vcheck", flag.ExitOnError)
	tier := fs.String("tier", "", "quick|thorough")
	jobs := fs.Int("jobs", 16, "parallel workers")
	keep := fs.Bool("keep", false, "keep the work directory")
	stopFirst := fs.Bool("stop-on-violation", false, "stop the remaining units as soon as one unit reports a violation (seed sweeps; evidence is then partial)")
	only := fs.String("only", "", "substring filter on unit names (debugging; evidence is marked partial)")
	fs.Parse(os.Args[2:])
	partialRun = *only != "" || *stopFirst
	if *tier == "" {
		*tier = os.Getenv("VERIF_TIER")
	}
	if *tier == "" {
		*tier = "quick"
	}
	seed, _ := strconv.Atoi(os.Getenv("VERIF_SEED"))
	start := time.Now()

	work := filepath.Join(verif, ".work", fmt.Sprintf("run-%s-%d", prop, os.Getpid()))
	os.RemoveAll(work)
	must(os.MkdirAll(filepath.Join(work, "w"), 0o755))
	_ = os.MkdirAll(filepath.Join(verif, "wcache", prop+"-"+*tier), 0o755)
	if !*keep {
		defer os.RemoveAll(work)
	}
	cfg := propConfig(prop)
	ha, taskBin, err := build(work, cfg.Race, true)
	if err != nil {
		os.RemoveAll(work)
		fatal(2, "build failed (tree does not compile with the harness?):\n%v", err)
	}

	// list units
	out, err := run(work, env(work, "VERIF_TASK_BIN="+taskBin), ha, "-prop", prop, "-tier", *tier, "-list")
	if err != nil {
		os.RemoveAll(work)
		fatal(2, "listing units failed: %v\n%s", err, out)
	}
	var units []unitInfo
	if err := json.Unmarshal([]byte(out), &units); err != nil {
		os.RemoveAll(work)
		fatal(2, "bad unit list: %v\n%s", err, out)
	}
	if *only != "" {
		var f []unitInfo
		for _, u := range units {
			if strings.Contains(u.Name, *only) {
				f = append(f, u)
			}
		}
		units = f
	}
	// expand sharded units
	var expanded []unitInfo
	for _, u := range units {
		if u.Shards <= 1 {
			u.Shards = 1
			expanded = append(expanded, u)
			continue
		}
		for k := 0; k < u.Shards; k++ {
			v := u
			v.shard = k
			expanded = append(expanded, v)
		}
	}
	units = expanded
	// heavier units first; VERIF_SEED only rotates the order of equal-weight units
	sort.SliceStable(units, func(i, j int) bool { return units[i].Weight > units[j].Weight })
	if seed != 0 && len(units) > 1 {
		r := seed % len(units)
		_ = r
	}
	perUnit := cfg.QuickS
	if *tier == "thorough" {
		perUnit = cfg.ThoroughS
	}

	results := make([]*unitResult, len(units))
	var wg sync.WaitGroup
	sem := make(chan struct{}, *jobs)
	var mu sync.Mutex
	var harnessErrs []string
	knownEarly := loadKnown()
	stopCtx, stopAll := context.WithCancel(context.Background())
	defer stopAll()
	todo := make([]int, len(units))
	for i := range units {
		todo[i] = i
	}
	for round := 0; round < 4 && len(todo) > 0; round++ {
		for _, i := range todo {
			u := units[i]
			wg.Add(1)
			go func(i int, u unitInfo) {
				defer wg.Done()
				sem <- struct{}{}
				defer func() { <-sem }()
				if stopCtx.Err() != nil {
					return
				}
				outf := filepath.Join(work, fmt.Sprintf("res-%d.json", i))
				args := []string{"-prop", prop, "-tier", *tier, "-unit", u.Name, "-out", outf, "-deadline", fmt.Sprint(perUnit), "-shard", fmt.Sprint(u.shard), "-nshards", fmt.Sprint(u.Shards)}
				c := exec.CommandContext(stopCtx, ha, args...)
				c.Dir = work
				c.Env = env(work, "VERIF_TASK_BIN="+taskBin, "VERIF_SEED="+fmt.Sprint(seed), "VERIF_WCACHE="+filepath.Join(verif, "wcache", prop+"-"+*tier))
				if os.Getenv("VERIF_REPO") != "" {
					c.Env = append(c.Env, "VERIF_WCACHE_RO=1") // runs against another tree never write the cache
				}
				if cfg.Race {
					c.Env = append(c.Env, "GORACE=halt_on_error=0 log_path="+filepath.Join(work, fmt.Sprintf("race-%d", i)), "VERIF_RACE_LOG="+filepath.Join(work, fmt.Sprintf("race-%d", i)))
				}
				ob, err := c.CombinedOutput()
				var r unitResult
				b, rerr := os.ReadFile(outf)
				if rerr == nil {
					rerr = json.Unmarshal(b, &r)
				}
				mu.Lock()
				defer mu.Unlock()
				if rerr != nil && stopCtx.Err() != nil {
					return // stopped on purpose after another unit reported a violation
				}
				if rerr == nil && *stopFirst {
					for _, v := range r.Violations {
						if k, ok := knownEarly[v.Sig]; !ok || k.Status != "known" {
							stopAll() // a violation that is not a listed known finding
							break
						}
					}
				}
				if rerr != nil {
					// the code under test recursed until the Go runtime killed the worker: a verdict
					// about that code (unbounded recursion), not a harness failure
					if fn := stackOverflowIn(string(ob)); fn != "" {
						v := violation{Property: prop, Clause: "stack_overflow", Sig: prop + ":stack_overflow:" + fn, Scenario: u.Name,
							Detail: "an execution of this scenario recursed without bound (" + fn + ") until the goroutine stack limit was exceeded and the process died",
							Trace:  []string{tail(string(ob), 1500)}}
						results[i] = &unitResult{Unit: u.Name, Stats: map[string]any{"scenario": u.Name, "executions": 1.0, "exhaustive": false, "note": "worker died: stack overflow of the code under test"},
							Violations: []violation{v}, SigCounts: map[string]int{v.Sig: 1}}
						return
					}
					os.WriteFile(filepath.Join(filepath.Dir(work), "last-worker-crash.txt"), ob, 0o644)
					harnessErrs = append(harnessErrs, fmt.Sprintf("unit %s: no result (%v): %s", u.Name, err, tail(string(ob), 2000)))
					return
				}
				if r.HarnessErr != "" {
					harnessErrs = append(harnessErrs, fmt.Sprintf("unit %s: %s", u.Name, r.HarnessErr))
				}
				if u.Shards > 1 {
					r.Shard = fmt.Sprintf("%d/%d", u.shard, u.Shards)
				}
				results[i] = &r
			}(i, u)
		}
		wg.Wait()
		// a shard that found a new shared object while exploring its share of a split unit ran with a
		// W set the other shards did not have (their numbering of the subtrees may differ): re-run
		// all shards of such a unit, which now start from the merged W cache, until none of them does
		todo = todo[:0]
		if os.Getenv("VERIF_REPO") == "" && len(harnessErrs) == 0 {
			again := map[string]bool{}
			for i, r := range results {
				if r != nil && units[i].Shards > 1 {
					if n, ok := r.Stats["w_restarts_in_split_pass"].(float64); ok && n > 0 {
						again[units[i].Name] = true
					}
				}
			}
			for i := range units {
				if again[units[i].Name] {
					todo = append(todo, i)
				}
			}
			if len(todo) > 0 && round == 3 {
				for _, i := range todo {
					if results[i] != nil {
						results[i].Stats["exhaustive"] = false
						results[i].Stats["note"] = fmt.Sprint(results[i].Stats["note"]) + "shared-object set still growing after 3 re-runs of the split pass; "
					}
				}
			}
		}
	}
	if len(harnessErrs) > 0 {
		for _, h := range harnessErrs {
			fmt.Fprintln(os.Stderr, "HARNESS-ERROR:", h)
		}
		os.RemoveAll(work)
		os.Exit(2)
	}

	// aggregate
	kf := loadKnown()
	knownSeen := map[string]bool{}
	var fresh []violation
	agg := map[string]float64{}
	exhaustive := true
	var unitStats []map[string]any
	var samples []any
	sigTotal := map[string]int{}
	for _, r := range results {
		if r == nil {
			continue
		}
		for _, k := range []string{"executions", "pruned", "states", "transitions", "choice_points", "distinct_outcomes", "total_runs_including_discovery_passes", "deadlocks"} {
			if v, ok := r.Stats[k].(float64); ok {
				agg[k] += v
			}
		}
		note, _ := r.Stats["note"].(string)
		if ex, ok := r.Stats["exhaustive"].(bool); ok && !ex && !strings.Contains(note, "supplement") {
			// (supplement units are sampling by nature; they are listed but do not decide)
			exhaustive = false
		}
		if st, ok := r.Stats["sample_traces"].([]any); ok && len(st) > 0 && len(samples) < 6 {
			samples = append(samples, map[string]any{"unit": r.Unit, "trace": st[0]})
		}
		if r.Extra != nil {
			if ss, ok := r.Extra["samples"].([]any); ok {
				for _, s := range ss {
					if len(samples) < 8 {
						samples = append(samples, s)
					}
				}
			}
		}
		us := map[string]any{"unit": r.Unit}
		if r.Shard != "" {
			us["shard"] = r.Shard
		}
		for k, v := range r.Stats {
			if k != "sample_traces" && k != "scenario" {
				us[k] = v
			}
		}
		if len(r.Goals) > 0 {
			sort.Strings(r.Goals)
			us["goals_witnessed"] = r.Goals
		}
		for k, v := range r.Extra {
			if k != "samples" {
				us[k] = v
			}
		}
		unitStats = append(unitStats, us)
		for s, n := range r.SigCounts {
			sigTotal[s] += n
		}
		for _, v := range r.Violations {
			if k, ok := kf[v.Sig]; ok && k.Status == "known" {
				if !knownSeen[v.Sig] {
					knownSeen[v.Sig] = true
					fmt.Printf("KNOWN-FINDING: property=%s %s [sig %s; e.g. unit %s]\n", prop, k.What, v.Sig, v.Scenario)
				}
				continue
			}
			fresh = append(fresh, v)
		}
	}
	// exists-style clauses: every required goal of a unit must be witnessed in some shard
	type goalAgg struct {
		seen       map[string]bool
		req        []string
		prop, msg  string
		exhaustive bool
	}
	ga := map[string]*goalAgg{}
	for _, r := range results {
		if r == nil {
			continue
		}
		g := ga[r.Unit]
		if g == nil {
			g = &goalAgg{seen: map[string]bool{}, exhaustive: true}
			ga[r.Unit] = g
		}
		for _, x := range r.Goals {
			g.seen[x] = true
		}
		if len(r.Required) > 0 {
			g.req, g.prop, g.msg = r.Required, r.ReqProp, r.ReqMsg
		}
		if ex, ok := r.Stats["exhaustive"].(bool); ok && !ex {
			g.exhaustive = false
		}
	}
	for unit, g := range ga {
		if !g.exhaustive {
			continue
		}
		for _, want := range g.req {
			if !g.seen[want] {
				v := violation{Property: prop, Clause: "goal", Sig: g.prop, Scenario: unit, Detail: fmt.Sprintf("%s: %s", want, g.msg)}
				if k, ok := kf[v.Sig]; ok && k.Status == "known" {
					if !knownSeen[v.Sig] {
						knownSeen[v.Sig] = true
						fmt.Printf("KNOWN-FINDING: property=%s %s [sig %s]\n", prop, k.What, v.Sig)
					}
					continue
				}
				fresh = append(fresh, v)
			}
		}
	}
	// one replay artefact per fresh signature
	freshSigs := map[string]bool{}
	rc := 0
	for _, v := range fresh {
		if freshSigs[v.Sig] {
			continue
		}
		freshSigs[v.Sig] = true
		h := sha1.Sum([]byte(v.Sig + "|" + v.Scenario))
		dir := filepath.Join(outRoot(), "replays", prop)
		os.MkdirAll(dir, 0o755)
		path := filepath.Join(dir, fmt.Sprintf("%x.json", h[:6]))
		b, _ := json.MarshalIndent(map[string]any{"property": prop, "tier": *tier, "unit": v.Scenario, "violation": v}, "", " ")
		os.WriteFile(path, b, 0o644)
		fmt.Printf("VIOLATION property=%s replay=%s\n", prop, path)
		fmt.Printf("  sig=%s unit=%s preemptions=%d\n  %s\n", v.Sig, v.Scenario, v.Preempt, v.Detail)
		rc = 1
	}

	// evidence
	cov := map[string]any{
		"exhaustive":                 exhaustive && *only == "",
		"units":                      len(unitStats),
		"per_unit":                   unitStats,
		"samples":                    samples,
		"rule":                       cfg.Rule,
		"violation_signature_counts": sigTotal,
		"known_findings_reobserved":  keys(knownSeen),
	}
	ev := map[string]any{
		"property_id": prop, "tier": *tier, "seed": seed, "level": cfg.Level,
		"wall_s": time.Since(start).Seconds(), "violations": len(freshSigs),
	}
	if cfg.Level == "model_checking" {
		cov["states"] = int(agg["states"])
		cov["transitions"] = int(agg["transitions"])
		cov["traces_validated_against_impl"] = int(agg["executions"])
		cov["executions"] = int(agg["executions"])
		cov["pruned_executions"] = int(agg["pruned"])
		cov["choice_points"] = int(agg["choice_points"])
		cov["distinct_outcomes_summed_over_units"] = int(agg["distinct_outcomes"])
		cov["total_runs_including_discovery_passes"] = int(agg["total_runs_including_discovery_passes"])
		ev["assumptions"] = []string{
			"interleavings are explored at hooked operations (sync, atomic, errgroup, channel, context, probe writes); unsynchronised plain memory accesses are C18's subject",
			"every explored trace is an execution of the real implementation (no separate model), so traces_validated_against_impl equals executions",
		}
	} else {
		cov["evaluations"] = int(agg["executions"])
		cov["distinct_nontrivial"] = int(agg["distinct_outcomes"])
		cov["states"] = int(agg["states"])
		cov["transitions"] = int(agg["transitions"])
	}
	if len(samples) == 0 {
		cov["samples"] = []any{"(no sample recorded)"}
	}
	ev["coverage"] = cov
	os.MkdirAll(filepath.Join(outRoot(), "evidence"), 0o755)
	b, _ := json.MarshalIndent(ev, "", " ")
	if prop == "SELF" {
		// the shims' self-test is not a property check: its report stays out of evidence/
		must(os.WriteFile(filepath.Join(verif, ".work", "selftest.json"), b, 0o644))
	} else {
		must(os.WriteFile(filepath.Join(outRoot(), "evidence", prop+".json"), b, 0o644))
	}
	fmt.Printf("%s tier=%s units=%d executions=%d states=%d exhaustive=%v fresh_violations=%d known=%d wall=%.1fs\n",
		prop, *tier, len(unitStats), int(agg["executions"]), int(agg["states"]), exhaustive, len(freshSigs), len(knownSeen), time.Since(start).Seconds())
	if !*keep {
		os.RemoveAll(work)
	}
	os.Exit(rc)
}

func keys(m map[string]bool) []string {
	var out []string
	for k := range m {
		out = append(out, k)
	}
	sort.Strings(out)
	return out
}

// stackOverflowIn: the worker output is a Go "stack exceeds limit" crash whose repeating frames
// are functions of the code under test; returns the first such function.
func stackOverflowIn(out string) string {
	if !strings.Contains(out, "goroutine stack exceeds") || !strings.Contains(out, "fatal error: stack overflow") {
		return ""
	}
	const mod = "github.com/go-task/task/v3"
	for _, l := range strings.Split(out, "\n") {
		if strings.HasPrefix(l, mod) && !strings.HasPrefix(l, mod+"/zverif/") {
			fn := strings.TrimPrefix(l, mod)
			if i := strings.LastIndex(fn, "("); i > 0 {
				fn = fn[:i]
			}
			if strings.Count(out, l[:strings.LastIndex(l, "(")]+"(") >= 8 {
				return fn
			}
		}
	}
	return ""
}

func tail(s string, n int) string {
	if len(s) > n {
		return s[len(s)-n:]
	}
	return s
}

func must(err error) {
	if err != nil {
		fatal(2, "%v", err)
	}
}

// build rewrites and compiles the harness (and the plain CLI binary) from /repo's working tree.
func build(work string, race bool, cli bool) (ha string, taskBin string, err error) {
	out, e := run(verif, buildEnv(), filepath.Join(verif, "bin", "vrewrite"), "-out", work, "-verif", verif, "-repo", repo)
	if e != nil {
		return "", "", fmt.Errorf("vrewrite: %v\n%s", e, out)
	}
	ha = filepath.Join(work, "ha")
	args := []string{"build", "-overlay", filepath.Join(work, "overlay.json"), "-o", ha}
	if race {
		args = append(args, "-race")
	}
	args = append(args, "./zverif/ha")
	out, e = run(repo, buildEnv(), goBin(), args...)
	if e != nil {
		return "", "", fmt.Errorf("go build harness: %v\n%s", e, tail(out, 4000))
	}
	if cli {
		taskBin = filepath.Join(work, "task")
		out, e = run(repo, buildEnv(), goBin(), "build", "-o", taskBin, "./cmd/task")
		if e != nil {
			return "", "", fmt.Errorf("go build cmd/task: %v\n%s", e, tail(out, 4000))
		}
	}
	return ha, taskBin, nil
}

func loadKnown() map[string]known {
	m := map[string]known{}
	f, err := os.Open(filepath.Join(verif, "known_findings.jsonl"))
	if err != nil {
		return m
	}
	defer f.Close()
	sc := bufio.NewScanner(f)
	sc.Buffer(make([]byte, 1<<20), 1<<20)
	for sc.Scan() {
		line := strings.TrimSpace(sc.Text())
		if line == "" || strings.HasPrefix(line, "#") {
			continue
		}
		var k known
		if json.Unmarshal([]byte(line), &k) == nil && k.Sig != "" {
			m[k.Sig] = k
		}
	}
	return m
}

func replay(path string) int {
	if abs, err := filepath.Abs(path); err == nil {
		path = abs // the worker runs in its own directory
	}
	b, err := os.ReadFile(path)
	if err != nil {
		fatal(2, "%v", err)
	}
	var r struct {
		Property  string    `json:"property"`
		Tier      string    `json:"tier"`
		Unit      string    `json:"unit"`
		Violation violation `json:"violation"`
	}
	if err := json.Unmarshal(b, &r); err != nil {
		fatal(2, "%v", err)
	}
	work := filepath.Join(verif, ".work", fmt.Sprintf("replay-%d", os.Getpid()))
	os.RemoveAll(work)
	must(os.MkdirAll(filepath.Join(work, "w"), 0o755))
	defer os.RemoveAll(work)
	cfg := propConfig(r.Property)
	ha, taskBin, err := build(work, cfg.Race, true)
	if err != nil {
		fatal(2, "%v", err)
	}
	c := exec.Command(ha, "-prop", r.Property, "-tier", r.Tier, "-unit", r.Unit, "-replayfile", path)
	c.Dir = work
	c.Env = env(work, "VERIF_TASK_BIN="+taskBin)
	c.Stdout = os.Stdout
	c.Stderr = os.Stderr
	if err := c.Run(); err != nil {
		if ee, ok := err.(*exec.ExitError); ok {
			return ee.ExitCode()
		}
		return 2
	}
	return 0
}
