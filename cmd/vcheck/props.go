package main

func propConfig(id string) propCfg {
	c, ok := props[id]
	if !ok {
		c = propCfg{Level: "model_checking"}
	}
	if c.Level == "" {
		c.Level = "model_checking"
	}
	if c.QuickS == 0 {
		c.QuickS = 150
	}
	if c.ThoroughS == 0 {
		c.ThoroughS = 1500
	}
	return c
}

const ruleA = "stateless DFS over all schedules of the real Executor under the cooperative scheduler, iterative context bounding (bound per unit in per_unit[].bound; -1 = all interleavings) with happens-before state-key pruning; an execution is distinct by its probe trace + exit status; states = distinct HB state keys at choice points"

func init() {
	for _, id := range []string{"C01", "C02", "C03", "C06", "C07", "C13", "C14", "C17", "C09", "C11"} {
		props[id] = propCfg{Level: "model_checking", Rule: ruleA}
	}
	props["C18"] = propCfg{Level: "model_checking", Race: true, Rule: ruleA + "; every explored schedule is additionally checked by ThreadSanitizer vector clocks with scheduler hand-offs hidden"}
}

const ruleB = "explicit-state breadth-first search over histories of file operations and real CLI invocations (the task binary built from the working tree) on a real project directory; states are canonicalised (path, content hash, mtime order type, model) and deduplicated; every transition is one real invocation checked against the reference model"

func init() {
	for _, id := range []string{"C04", "C05", "C12"} {
		props[id] = propCfg{Level: "model_checking", Rule: ruleB, QuickS: 200}
	}
}

const ruleC = "bounded-exhaustive enumeration of the input/configuration space described per unit, every element executed on the real implementation (in-process through the harness, or through the CLI binary) and compared with a reference model written from the property statement; distinct = distinct (outcome class) observed"

func init() {
	for _, id := range []string{"C08", "C10", "C15", "C16", "C19"} {
		props[id] = propCfg{Level: "model_checking", Rule: ruleC}
	}
}

func init() {
	props["C20"] = propCfg{Level: "model_checking", QuickS: 240, Rule: "explicit-state breadth-first search over (remote content version, server mode, cache files incl. timestamp age class, approved checksum of the model); transitions are real CLI invocations against a loopback HTTP server owned by the harness, server events and cache expiry; states are deduplicated on that tuple"}
}
