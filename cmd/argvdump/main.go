// argvdump writes its arguments (after the output path) NUL-separated to the file named by
// its first argument. Used by the C19 check to observe exactly what a command received.
package main

import (
	"os"
	"strings"
)

func main() {
	if len(os.Args) < 2 {
		os.Exit(2)
	}
	data := strings.Join(os.Args[2:], "\x00")
	if len(os.Args) > 2 {
		data += "\x00"
	}
	if err := os.WriteFile(os.Args[1], []byte(data), 0o644); err != nil {
		os.Exit(3)
	}
}
