// vrewrite reads packages of the module in -repo (its current working tree) and writes
// rewritten copies of their non-test Go files plus a `go build -overlay` JSON that
//   - redirects sync / sync/atomic / errgroup imports to the scheduler shims,
//   - turns channel operations, go statements, context constructors and Go-map ranges
//     into calls of github.com/go-task/task/v3/zverif/vsched,
//   - maps the shim and harness sources (which live under /verif) into the module as the
//     virtual packages <module>/zverif/...
//
// Nothing is written into the repository.
package main

import (
	"bytes"
	"encoding/json"
	"flag"
	"fmt"
	"go/ast"
	"go/printer"
	"go/token"
	"go/types"
	"os"
	"path/filepath"
	"sort"
	"strconv"
	"strings"

	"golang.org/x/tools/go/packages"
)

const mod = "github.com/go-task/task/v3"
const shimBase = mod + "/zverif"

var importMap = map[string][2]string{
	"sync":                       {"sync", shimBase + "/vsync"},
	"sync/atomic":                {"atomic", shimBase + "/vatomic"},
	"golang.org/x/sync/errgroup": {"errgroup", shimBase + "/verrgroup"},
	// not used by the pinned tree; realistic changes reach for them
	"golang.org/x/sync/singleflight": {"singleflight", shimBase + "/vsingleflight"},
	"golang.org/x/sync/semaphore":    {"semaphore", shimBase + "/vsemaphore"},
}

type siteReport struct {
	File string `json:"file"`
	Line int    `json:"line"`
	Kind string `json:"kind"`
}

func main() {
	repo := flag.String("repo", "/repo", "repository root")
	out := flag.String("out", "", "output directory for rewritten files and overlay.json")
	verif := flag.String("verif", "/verif", "verif root (shim and harness sources)")
	pkgsFlag := flag.String("pkgs", ".,./taskfile,./taskfile/ast,./internal/output,./internal/fingerprint,./internal/templater,./internal/logger,./internal/env,./internal/execext,./internal/summary,./internal/deepcopy,./internal/hash,./internal/sort,./internal/flags,./internal/editors,./internal/fsext,./internal/filepathext,./args,./errors,./cmd/task,github.com/dominikbraun/graph", "packages to rewrite")
	mapsOnly := flag.String("plain", "", "comma-separated package patterns that are NOT rewritten at all")
	norewrite := flag.Bool("norewrite", false, "only map shim/harness sources (free build without scheduler hooks in Task's code)")
	flag.Parse()
	if *out == "" {
		fatal("need -out")
	}
	_ = mapsOnly
	if abs, err := filepath.Abs(*out); err == nil {
		*out = abs
	}
	must(os.MkdirAll(*out, 0o755))
	overlay := map[string]string{}
	var sites []siteReport

	// 1. shim + harness sources -> virtual packages
	for _, sub := range []string{"shim", "harness"} {
		root := filepath.Join(*verif, sub)
		filepath.Walk(root, func(p string, info os.FileInfo, err error) error {
			if err != nil || info.IsDir() || !strings.HasSuffix(p, ".go") {
				return nil
			}
			rel, _ := filepath.Rel(root, p)
			overlay[filepath.Join(*repo, "zverif", rel)] = p
			return nil
		})
	}

	if !*norewrite {
		cfg := &packages.Config{
			Mode: packages.NeedName | packages.NeedFiles | packages.NeedCompiledGoFiles | packages.NeedSyntax | packages.NeedTypes | packages.NeedTypesInfo | packages.NeedImports | packages.NeedDeps,
			Dir:  *repo,
			Env:  append(os.Environ(), "GOFLAGS=-mod=mod", "GOPROXY=off", "GOSUMDB=off", "GOTOOLCHAIN=local"),
		}
		pkgs, err := packages.Load(cfg, strings.Split(*pkgsFlag, ",")...)
		if err != nil {
			fatal("load: %v", err)
		}
		bad := false
		extDone := map[string]bool{}
		for _, p := range pkgs {
			for _, e := range p.Errors {
				fmt.Fprintf(os.Stderr, "vrewrite: %s: %v\n", p.PkgPath, e)
				bad = true
			}
		}
		if bad {
			// the tree does not type-check: let the caller report a build failure
			os.Exit(3)
		}
		for _, p := range pkgs {
			for i, f := range p.Syntax {
				fn := p.CompiledGoFiles[i]
				if strings.HasSuffix(fn, "_test.go") {
					continue
				}
				rw := &rewriter{fset: p.Fset, info: p.TypesInfo, file: f, fname: fn, external: !strings.HasPrefix(p.PkgPath, mod), pkgPath: p.PkgPath}
				changed := rw.run()
				sites = append(sites, rw.sites...)
				if rw.err != nil {
					fatal("%s: %v", fn, rw.err)
				}
				if !changed {
					continue
				}
				addHook := rw.external && !extDone[p.PkgPath]
				if addHook {
					extDone[p.PkgPath] = true
					addImport(f, "vfmt_", "fmt")
					addImport(f, "vsort_", "sort")
				}
				var buf bytes.Buffer
				pc := printer.Config{Mode: printer.SourcePos | printer.TabIndent | printer.UseSpaces, Tabwidth: 8}
				if err := pc.Fprint(&buf, p.Fset, f); err != nil {
					fatal("print %s: %v", fn, err)
				}
				if addHook {
					buf.WriteString(externalHook)
				}
				rel := strings.ReplaceAll(strings.TrimPrefix(fn, "/"), "/", "_")
				dst := filepath.Join(*out, "rw", rel)
				must(os.MkdirAll(filepath.Dir(dst), 0o755))
				must(os.WriteFile(dst, buf.Bytes(), 0o644))
				overlay[fn] = dst
			}
		}
	}
	ov := map[string]any{"Replace": overlay}
	b, _ := json.MarshalIndent(ov, "", " ")
	must(os.WriteFile(filepath.Join(*out, "overlay.json"), b, 0o644))
	sort.Slice(sites, func(i, j int) bool {
		if sites[i].File != sites[j].File {
			return sites[i].File < sites[j].File
		}
		return sites[i].Line < sites[j].Line
	})
	sb, _ := json.MarshalIndent(sites, "", " ")
	must(os.WriteFile(filepath.Join(*out, "sites.json"), sb, 0o644))
}

type rewriter struct {
	fset     *token.FileSet
	info     *types.Info
	file     *ast.File
	fname    string
	sites    []siteReport
	err      error
	needV    bool
	changed  bool
	tmpN     int
	external bool
	pkgPath  string
	dropMaps bool // a maps.X call was rewritten: the import may have become unused
	mapsName string
}

// externalHook is added (virtually) to rewritten packages outside the main module, which
// cannot import the shims: map-range order goes through a function variable the harness sets.
const externalHook = `

// VerifChoose is set by the verification harness (nil: canonical sorted order, no choices).
var VerifChoose func(n int, label string) int

func verifMapKeys_[M ~map[K]V, K comparable, V any](m M, site string) []K {
	keys := make([]K, 0, len(m))
	for k := range m {
		keys = append(keys, k)
	}
	vsort_.SliceStable(keys, func(i, j int) bool { return vfmt_.Sprintf("%#v", keys[i]) < vfmt_.Sprintf("%#v", keys[j]) })
	if VerifChoose != nil && len(keys) > 1 {
		for i := 0; i < len(keys)-1; i++ {
			j := VerifChoose(len(keys)-i, "maprange@"+site)
			if j != 0 {
				k := keys[i+j]
				copy(keys[i+1:i+j+1], keys[i:i+j])
				keys[i] = k
			}
		}
	}
	return keys
}
`

func (r *rewriter) site(n ast.Node, kind string) {
	pos := r.fset.Position(n.Pos())
	r.sites = append(r.sites, siteReport{File: pos.Filename, Line: pos.Line, Kind: kind})
	r.changed = true
}

func (r *rewriter) vs(name string) ast.Expr {
	r.needV = true
	return &ast.SelectorExpr{X: ast.NewIdent("vsched_"), Sel: ast.NewIdent(name)}
}

func (r *rewriter) run() bool {
	// imports
	for _, imp := range r.file.Imports {
		if r.external {
			break
		}
		path, _ := strconv.Unquote(imp.Path.Value)
		if m, ok := importMap[path]; ok {
			if imp.Name == nil {
				imp.Name = ast.NewIdent(m[0])
			}
			imp.Path.Value = strconv.Quote(m[1])
			r.site(imp, "import:"+path)
		}
	}
	r.file.Decls = r.rewriteDecls(r.file.Decls)
	if r.needV {
		addImport(r.file, "vsched_", shimBase+"/vsched")
	}
	if r.dropMaps {
		// keep the "maps" import used: var _ = maps.Clone[map[int]int]
		r.file.Decls = append(r.file.Decls, &ast.GenDecl{Tok: token.VAR, Specs: []ast.Spec{&ast.ValueSpec{
			Names: []*ast.Ident{ast.NewIdent("_")},
			Values: []ast.Expr{&ast.IndexExpr{X: &ast.SelectorExpr{X: ast.NewIdent(r.mapsName), Sel: ast.NewIdent("Clone")},
				Index: &ast.MapType{Key: ast.NewIdent("int"), Value: ast.NewIdent("int")}}},
		}}})
	}
	return r.changed
}

func addImport(f *ast.File, name, path string) {
	spec := &ast.ImportSpec{Name: ast.NewIdent(name), Path: &ast.BasicLit{Kind: token.STRING, Value: strconv.Quote(path)}}
	decl := &ast.GenDecl{Tok: token.IMPORT, Specs: []ast.Spec{spec}}
	// place right after the package clause so that positions of later decls are untouched
	f.Decls = append([]ast.Decl{decl}, f.Decls...)
	f.Imports = append(f.Imports, spec)
}

func (r *rewriter) rewriteDecls(decls []ast.Decl) []ast.Decl {
	for _, d := range decls {
		// execext.RunCommand(ctx, opts): a scheduling point before the command runs
		if fd, ok := d.(*ast.FuncDecl); ok && fd.Recv == nil && fd.Name.Name == "RunCommand" && fd.Body != nil && r.pkgPath == mod+"/internal/execext" &&
			fd.Type.Params != nil && len(fd.Type.Params.List) == 2 && len(fd.Type.Params.List[1].Names) == 1 {
			opts := fd.Type.Params.List[1].Names[0].Name
			guard := &ast.IfStmt{
				Cond: &ast.BinaryExpr{X: ast.NewIdent(opts), Op: token.NEQ, Y: ast.NewIdent("nil")},
				Body: &ast.BlockStmt{List: []ast.Stmt{&ast.ExprStmt{X: &ast.CallExpr{Fun: r.vs("ExecPoint"), Args: []ast.Expr{&ast.SelectorExpr{X: ast.NewIdent(opts), Sel: ast.NewIdent("Stdout")}}}}}},
			}
			fd.Body.List = append([]ast.Stmt{guard}, fd.Body.List...)
			r.site(fd, "exec.point")
		}
		r.walk(d, false)
	}
	return decls
}

// walk rewrites in place. inSelectComm: directly inside a select CommClause's Comm statement.
func (r *rewriter) walk(n ast.Node, _ bool) {
	ast.Inspect(n, func(n ast.Node) bool {
		switch x := n.(type) {
		case *ast.SelectStmt:
			// rewrite the bodies of the clauses but leave the communication statements alone
			for _, c := range x.Body.List {
				cc := c.(*ast.CommClause)
				for i := range cc.Body {
					cc.Body[i] = r.stmt(cc.Body[i])
					r.walk(cc.Body[i], false)
				}
			}
			return false
		case *ast.BlockStmt:
			for i := range x.List {
				x.List[i] = r.stmt(x.List[i])
			}
		case *ast.CaseClause:
			for i := range x.Body {
				x.Body[i] = r.stmt(x.Body[i])
			}
		case *ast.CommClause:
			for i := range x.Body {
				x.Body[i] = r.stmt(x.Body[i])
			}
		case *ast.LabeledStmt:
			x.Stmt = r.stmt(x.Stmt)
		case *ast.IfStmt:
			if x.Init != nil {
				x.Init = r.stmt(x.Init)
			}
		case *ast.CallExpr:
			if id, ok := x.Fun.(*ast.Ident); ok && id.Name == "close" && len(x.Args) == 1 && !r.external {
				if _, isBuiltin := r.info.Uses[id].(*types.Builtin); isBuiltin && !r.outsideWorldChan(x.Args[0]) {
					if tv, ok := r.info.Types[x.Args[0]]; ok {
						if c, ok := tv.Type.Underlying().(*types.Chan); ok && c.Dir() == types.SendRecv {
							x.Fun = r.vs("Close")
							r.site(x, "chan.close")
						}
					}
				}
			}
			// recover(): the scheduler's own unwinding panic passes through
			if id, ok := x.Fun.(*ast.Ident); ok && id.Name == "recover" && len(x.Args) == 0 && !r.external {
				if _, isBuiltin := r.info.Uses[id].(*types.Builtin); isBuiltin {
					inner := &ast.CallExpr{Fun: ast.NewIdent("recover")}
					x.Fun = r.vs("FilterRecover")
					x.Args = []ast.Expr{inner}
					r.site(x, "recover")
					return false
				}
			}
			// maps.Keys / maps.Values / maps.All (standard library iterators over a Go map)
			if sel, ok := x.Fun.(*ast.SelectorExpr); ok && !r.external && len(x.Args) == 1 {
				if id, ok := sel.X.(*ast.Ident); ok {
					if pn, ok := r.info.Uses[id].(*types.PkgName); ok && pn.Imported().Path() == "maps" {
						if tv, ok := r.info.Types[x.Args[0]]; ok && tv.Type != nil {
							if _, isMap := tv.Type.Underlying().(*types.Map); isMap {
								fn := map[string]string{"Keys": "SeqKeys", "Values": "SeqValues", "All": "SeqAll"}[sel.Sel.Name]
								if fn != "" {
									pos := r.fset.Position(x.Pos())
									x.Fun = r.vs(fn)
									x.Args = append(x.Args, &ast.BasicLit{Kind: token.STRING, Value: fmt.Sprintf("%q", fmt.Sprintf("%s:%d", filepath.Base(pos.Filename), pos.Line))})
									r.site(x, "maps."+sel.Sel.Name)
									r.dropMaps = true
									r.mapsName = id.Name
								}
							}
						}
					}
				}
			}
			// context constructors
			if sel, ok := x.Fun.(*ast.SelectorExpr); ok && !r.external {
				if id, ok := sel.X.(*ast.Ident); ok {
					if pn, ok := r.info.Uses[id].(*types.PkgName); ok && pn.Imported().Path() == "context" {
						switch sel.Sel.Name {
						case "WithCancel", "WithTimeout", "WithDeadline", "WithCancelCause":
							x.Fun = r.vs(sel.Sel.Name)
							r.site(x, "ctx:"+sel.Sel.Name)
						}
					}
				}
			}
		case *ast.UnaryExpr:
			// handled through parents (exprs) below
		}
		// rewrite receive expressions wherever they occur as sub-expressions
		if !r.external {
			r.rewriteChildExprs(n)
		}
		return true
	})
}

// rewriteChildExprs replaces `<-ch` sub-expressions of node n (one level) by vsched.Recv(ch).
func (r *rewriter) rewriteChildExprs(n ast.Node) {
	fix := func(e ast.Expr) ast.Expr {
		if u, ok := e.(*ast.UnaryExpr); ok && u.Op == token.ARROW {
			if call, ok := u.X.(*ast.CallExpr); ok && len(call.Args) == 0 {
				if sel, ok := call.Fun.(*ast.SelectorExpr); ok && sel.Sel.Name == "Done" {
					if tv, ok := r.info.Types[sel.X]; ok && tv.Type != nil && tv.Type.String() == "context.Context" {
						r.site(u, "ctx.wait")
						return &ast.CallExpr{Fun: r.vs("WaitDone"), Args: []ast.Expr{sel.X}}
					}
				}
			}
			r.site(u, "chan.recv")
			return &ast.CallExpr{Fun: r.vs("Recv"), Args: []ast.Expr{u.X}}
		}
		return e
	}
	switch x := n.(type) {
	case *ast.ExprStmt:
		x.X = fix(x.X)
	case *ast.AssignStmt:
		if len(x.Lhs) == 2 && len(x.Rhs) == 1 {
			if u, ok := x.Rhs[0].(*ast.UnaryExpr); ok && u.Op == token.ARROW {
				r.site(u, "chan.recvok")
				x.Rhs[0] = &ast.CallExpr{Fun: r.vs("RecvOK"), Args: []ast.Expr{u.X}}
				return
			}
		}
		for i := range x.Rhs {
			x.Rhs[i] = fix(x.Rhs[i])
		}
	case *ast.CallExpr:
		for i := range x.Args {
			x.Args[i] = fix(x.Args[i])
		}
	case *ast.ReturnStmt:
		for i := range x.Results {
			x.Results[i] = fix(x.Results[i])
		}
	case *ast.BinaryExpr:
		x.X, x.Y = fix(x.X), fix(x.Y)
	case *ast.ParenExpr:
		x.X = fix(x.X)
	case *ast.ValueSpec:
		if len(x.Names) == 2 && len(x.Values) == 1 {
			if u, ok := x.Values[0].(*ast.UnaryExpr); ok && u.Op == token.ARROW {
				r.site(u, "chan.recvok")
				x.Values[0] = &ast.CallExpr{Fun: r.vs("RecvOK"), Args: []ast.Expr{u.X}}
				return
			}
		}
		for i := range x.Values {
			x.Values[i] = fix(x.Values[i])
		}
	case *ast.IfStmt:
		x.Cond = fix(x.Cond)
	case *ast.SwitchStmt:
		if x.Tag != nil {
			x.Tag = fix(x.Tag)
		}
	case *ast.KeyValueExpr:
		x.Value = fix(x.Value)
	case *ast.CompositeLit:
		for i := range x.Elts {
			x.Elts[i] = fix(x.Elts[i])
		}
	case *ast.IndexExpr:
		x.Index = fix(x.Index)
	case *ast.SelectorExpr:
		x.X = fix(x.X)
	}
}

// stmt rewrites one statement (send, go, range-over-map / range-over-chan).
func (r *rewriter) stmt(s ast.Stmt) ast.Stmt {
	if r.external {
		if x, ok := s.(*ast.RangeStmt); ok {
			if tv, ok := r.info.Types[x.X]; ok && tv.Type != nil {
				if _, ok := tv.Type.Underlying().(*types.Map); ok {
					return r.mapRange(x)
				}
			}
		}
		return s
	}
	switch x := s.(type) {
	case *ast.SelectStmt:
		if sw := r.selectStmt(x); sw != nil {
			return sw
		}
		return s
	case *ast.SendStmt:
		r.site(x, "chan.send")
		return &ast.ExprStmt{X: &ast.CallExpr{Fun: r.vs("Send"), Args: []ast.Expr{x.Chan, x.Value}}}
	case *ast.GoStmt:
		r.site(x, "go")
		if fl, ok := x.Call.Fun.(*ast.FuncLit); ok && len(x.Call.Args) == 0 && fl.Type.Results == nil {
			return &ast.ExprStmt{X: &ast.CallExpr{Fun: r.vs("Go"), Args: []ast.Expr{fl}}}
		}
		if len(x.Call.Args) == 0 {
			// go f()  /  go x.m()
			body := &ast.BlockStmt{List: []ast.Stmt{&ast.ExprStmt{X: x.Call}}}
			fl := &ast.FuncLit{Type: &ast.FuncType{Params: &ast.FieldList{}}, Body: body}
			return &ast.ExprStmt{X: &ast.CallExpr{Fun: r.vs("Go"), Args: []ast.Expr{fl}}}
		}
		// go f(a, b): bind the arguments now, run later
		var pre []ast.Stmt
		var args []ast.Expr
		for _, a := range x.Call.Args {
			r.tmpN++
			id := ast.NewIdent(fmt.Sprintf("vgoarg%d_", r.tmpN))
			pre = append(pre, &ast.AssignStmt{Lhs: []ast.Expr{id}, Tok: token.DEFINE, Rhs: []ast.Expr{a}})
			args = append(args, id)
		}
		call := &ast.CallExpr{Fun: x.Call.Fun, Args: args, Ellipsis: x.Call.Ellipsis}
		fl := &ast.FuncLit{Type: &ast.FuncType{Params: &ast.FieldList{}}, Body: &ast.BlockStmt{List: []ast.Stmt{&ast.ExprStmt{X: call}}}}
		pre = append(pre, &ast.ExprStmt{X: &ast.CallExpr{Fun: r.vs("Go"), Args: []ast.Expr{fl}}})
		return &ast.BlockStmt{List: pre}
	case *ast.RangeStmt:
		tv, ok := r.info.Types[x.X]
		if !ok || tv.Type == nil {
			return s
		}
		switch tv.Type.Underlying().(type) {
		case *types.Map:
			return r.mapRange(x)
		case *types.Chan:
			if r.outsideWorldChan(x.X) {
				return s
			}
			// for v := range ch { B }  ==>  for { v, ok_ := vsched.RecvOK(ch); if !ok_ { break }; B }
			r.site(x, "chan.range")
			r.tmpN++
			ok := ast.NewIdent(fmt.Sprintf("vok%d_", r.tmpN))
			var v ast.Expr = ast.NewIdent("_")
			tok := token.DEFINE
			if x.Key != nil {
				v, tok = x.Key, x.Tok
			}
			if tok == token.ASSIGN {
				// v already declared: declare only ok_
				pre := &ast.DeclStmt{Decl: &ast.GenDecl{Tok: token.VAR, Specs: []ast.Spec{&ast.ValueSpec{Names: []*ast.Ident{ok}, Type: ast.NewIdent("bool")}}}}
				recv := &ast.AssignStmt{Lhs: []ast.Expr{v, ok}, Tok: token.ASSIGN, Rhs: []ast.Expr{&ast.CallExpr{Fun: r.vs("RecvOK"), Args: []ast.Expr{x.X}}}}
				brk := &ast.IfStmt{Cond: &ast.UnaryExpr{Op: token.NOT, X: ok}, Body: &ast.BlockStmt{List: []ast.Stmt{&ast.BranchStmt{Tok: token.BREAK}}}}
				x.Body.List = append([]ast.Stmt{pre, recv, brk}, x.Body.List...)
				return &ast.ForStmt{Body: x.Body}
			}
			recv := &ast.AssignStmt{Lhs: []ast.Expr{v, ok}, Tok: token.DEFINE, Rhs: []ast.Expr{&ast.CallExpr{Fun: r.vs("RecvOK"), Args: []ast.Expr{x.X}}}}
			brk := &ast.IfStmt{Cond: &ast.UnaryExpr{Op: token.NOT, X: ok}, Body: &ast.BlockStmt{List: []ast.Stmt{&ast.BranchStmt{Tok: token.BREAK}}}}
			x.Body.List = append([]ast.Stmt{recv, brk}, x.Body.List...)
			return &ast.ForStmt{Body: x.Body}
		}
	}
	return s
}

// selectStmt: a select whose clauses are sends, receives from a context's Done channel and
// an optional default becomes
//
//	switch vsel_ := vsched.Select(hasDefault, vsched.CaseSend(ch, v), vsched.CaseRecv(ctx.Done())); vsel_.I { case 0: ...; case 1: ... }
//
// (one scheduling point; which ready clause fires is an explored choice). Selects with other
// receive clauses (channels fed from outside the scheduler, e.g. the file watcher) are left alone.
func (r *rewriter) selectStmt(x *ast.SelectStmt) ast.Stmt {
	isCtxDone := func(e ast.Expr) bool {
		call, ok := e.(*ast.CallExpr)
		if !ok || len(call.Args) != 0 {
			return false
		}
		sel, ok := call.Fun.(*ast.SelectorExpr)
		if !ok || sel.Sel.Name != "Done" {
			return false
		}
		tv, ok := r.info.Types[sel.X]
		return ok && tv.Type != nil && tv.Type.String() == "context.Context"
	}
	recvOf := func(st ast.Stmt) (ch ast.Expr, as *ast.AssignStmt) {
		switch c := st.(type) {
		case *ast.ExprStmt:
			if u, ok := c.X.(*ast.UnaryExpr); ok && u.Op == token.ARROW {
				return u.X, nil
			}
		case *ast.AssignStmt:
			if len(c.Rhs) == 1 {
				if u, ok := c.Rhs[0].(*ast.UnaryExpr); ok && u.Op == token.ARROW {
					return u.X, c
				}
			}
		}
		return nil, nil
	}
	for _, c := range x.Body.List {
		cc := c.(*ast.CommClause)
		switch st := cc.Comm.(type) {
		case nil, *ast.SendStmt:
		default:
			ch, _ := recvOf(st)
			if ch == nil || (!isCtxDone(ch) && r.outsideWorldChan(ch)) {
				return nil
			}
		}
	}
	r.site(x, "select")
	r.tmpN++
	res := ast.NewIdent(fmt.Sprintf("vsel%d_", r.tmpN))
	args := []ast.Expr{ast.NewIdent("false")}
	sw := &ast.SwitchStmt{Body: &ast.BlockStmt{}}
	n := 0
	var def *ast.CaseClause
	for _, c := range x.Body.List {
		cc := c.(*ast.CommClause)
		if cc.Comm == nil {
			args[0] = ast.NewIdent("true")
			def = &ast.CaseClause{Body: cc.Body}
			continue
		}
		clause := &ast.CaseClause{List: []ast.Expr{&ast.BasicLit{Kind: token.INT, Value: fmt.Sprint(n)}}}
		n++
		if snd, ok := cc.Comm.(*ast.SendStmt); ok {
			args = append(args, &ast.CallExpr{Fun: r.vs("CaseSend"), Args: []ast.Expr{snd.Chan, snd.Value}})
			clause.Body = cc.Body
		} else {
			ch, as := recvOf(cc.Comm)
			args = append(args, &ast.CallExpr{Fun: r.vs("CaseRecv"), Args: []ast.Expr{ch}})
			if as != nil {
				fn := "SelRecv"
				if len(as.Lhs) == 2 {
					fn = "SelRecvOK"
				}
				get := &ast.AssignStmt{Lhs: as.Lhs, Tok: as.Tok, Rhs: []ast.Expr{&ast.CallExpr{Fun: r.vs(fn), Args: []ast.Expr{res, ch}}}}
				clause.Body = append([]ast.Stmt{get}, cc.Body...)
			} else {
				clause.Body = cc.Body
			}
		}
		sw.Body.List = append(sw.Body.List, clause)
	}
	// the default clause of the switch keeps a select that ends a function a terminating
	// statement (Select returns len(cases) for the original default, and never for a select
	// without one)
	if def == nil {
		def = &ast.CaseClause{Body: []ast.Stmt{&ast.ExprStmt{X: &ast.CallExpr{Fun: ast.NewIdent("panic"), Args: []ast.Expr{&ast.BasicLit{Kind: token.STRING, Value: `"vsched: select without default returned no clause"`}}}}}}
	}
	sw.Body.List = append(sw.Body.List, def)
	sw.Init = &ast.AssignStmt{Lhs: []ast.Expr{res}, Tok: token.DEFINE, Rhs: []ast.Expr{&ast.CallExpr{Fun: r.vs("Select"), Args: args}}}
	sw.Tag = &ast.SelectorExpr{X: res, Sel: ast.NewIdent("I")}
	return sw
}

// outsideWorldChan: a channel that is fed from outside the scheduler (timers, signals, the
// file watcher); operations on it cannot be modelled.
func (r *rewriter) outsideWorldChan(ch ast.Expr) bool {
	if call, ok := ch.(*ast.CallExpr); ok {
		if sel, ok := call.Fun.(*ast.SelectorExpr); ok {
			if id, ok := sel.X.(*ast.Ident); ok {
				if pn, ok := r.info.Uses[id].(*types.PkgName); ok && pn.Imported().Path() == "time" {
					return true
				}
			}
		}
	}
	tv, ok := r.info.Types[ch]
	if !ok || tv.Type == nil {
		return true
	}
	c, ok := tv.Type.Underlying().(*types.Chan)
	if !ok {
		return true
	}
	el := c.Elem().String()
	return strings.Contains(el, "os.Signal") || strings.Contains(el, "fsnotify") || strings.Contains(el, "time.Time")
}

func simpleExpr(e ast.Expr) bool {
	switch x := e.(type) {
	case *ast.Ident:
		return true
	case *ast.SelectorExpr:
		return simpleExpr(x.X)
	case *ast.StarExpr:
		return simpleExpr(x.X)
	case *ast.ParenExpr:
		return simpleExpr(x.X)
	}
	return false
}

// mapRange: for k, v := range m { B }  ==>
//
//	for _, k := range vsched.MapKeys(m) { v, ok_ := m[k]; if !ok_ { continue }; B }
func (r *rewriter) mapRange(x *ast.RangeStmt) ast.Stmt {
	r.site(x, "maprange")
	r.tmpN++
	n := r.tmpN
	var pre []ast.Stmt
	m := x.X
	if !simpleExpr(m) {
		id := ast.NewIdent(fmt.Sprintf("vmap%d_", n))
		pre = append(pre, &ast.AssignStmt{Lhs: []ast.Expr{id}, Tok: token.DEFINE, Rhs: []ast.Expr{m}})
		m = id
	}
	isBlank := func(e ast.Expr) bool {
		if e == nil {
			return true
		}
		id, ok := e.(*ast.Ident)
		return ok && id.Name == "_"
	}
	key := x.Key
	tok := x.Tok
	if isBlank(key) {
		key = ast.NewIdent(fmt.Sprintf("vkey%d_", n))
		if tok == token.ASSIGN || tok == token.ILLEGAL {
			// need a fresh variable: declare via :=  (value, if any, must then be assigned separately)
			tok = token.DEFINE
		}
	}
	okID := ast.NewIdent(fmt.Sprintf("vok%d_", n))
	var head []ast.Stmt
	idx := &ast.IndexExpr{X: m, Index: key}
	if !isBlank(x.Value) {
		if x.Tok == token.DEFINE {
			head = append(head, &ast.AssignStmt{Lhs: []ast.Expr{x.Value, okID}, Tok: token.DEFINE, Rhs: []ast.Expr{idx}})
		} else {
			head = append(head,
				&ast.DeclStmt{Decl: &ast.GenDecl{Tok: token.VAR, Specs: []ast.Spec{&ast.ValueSpec{Names: []*ast.Ident{okID}, Type: ast.NewIdent("bool")}}}},
				&ast.AssignStmt{Lhs: []ast.Expr{x.Value, okID}, Tok: token.ASSIGN, Rhs: []ast.Expr{idx}})
		}
	} else {
		head = append(head, &ast.AssignStmt{Lhs: []ast.Expr{ast.NewIdent("_"), okID}, Tok: token.DEFINE, Rhs: []ast.Expr{idx}})
	}
	head = append(head, &ast.IfStmt{Cond: &ast.UnaryExpr{Op: token.NOT, X: okID}, Body: &ast.BlockStmt{List: []ast.Stmt{&ast.BranchStmt{Tok: token.CONTINUE}}}})
	if x.Tok == token.DEFINE && !isBlank(x.Key) && isBlank(x.Value) {
		// keep "declared and not used" away if the body ignores the key (legal for range, not for :=)
		head = append(head, &ast.AssignStmt{Lhs: []ast.Expr{ast.NewIdent("_")}, Tok: token.ASSIGN, Rhs: []ast.Expr{key}})
	}
	body := &ast.BlockStmt{Lbrace: x.Body.Lbrace, List: append(head, x.Body.List...), Rbrace: x.Body.Rbrace}
	loop := &ast.RangeStmt{For: x.For, Key: ast.NewIdent("_"), Value: key, Tok: tok, X: &ast.CallExpr{Fun: r.mapKeysFun(), Args: []ast.Expr{m, &ast.BasicLit{Kind: token.STRING, Value: strconv.Quote(r.sitePos(x))}}}, Body: body}
	if len(pre) == 0 {
		return loop
	}
	return &ast.BlockStmt{List: append(pre, loop)}
}

func (r *rewriter) sitePos(n ast.Node) string {
	pos := r.fset.Position(n.Pos())
	return fmt.Sprintf("%s:%d", filepath.Base(pos.Filename), pos.Line)
}

func (r *rewriter) mapKeysFun() ast.Expr {
	if r.external {
		return ast.NewIdent("verifMapKeys_")
	}
	return r.vs("MapKeys")
}

func must(err error) {
	if err != nil {
		fatal("%v", err)
	}
}

func fatal(f string, a ...any) {
	fmt.Fprintf(os.Stderr, "vrewrite: "+f+"\n", a...)
	os.Exit(2)
}
