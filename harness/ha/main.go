// ha is the Engine-A/C harness binary: it is built inside the go-task module (as the virtual
// package zverif/ha, through go build -overlay) against the rewritten sources.
package main

import (
	"encoding/json"
	"flag"
	"fmt"
	"os"
	"runtime/debug"
	"runtime/pprof"
	"time"

	"github.com/go-task/task/v3/zverif/props"
	"github.com/go-task/task/v3/zverif/vlab"
)

func main() {
	// unbounded recursion of the code under test ends the worker early (default limit: 1 GB)
	debug.SetMaxStack(128 << 20)
	prop := flag.String("prop", "", "property id")
	tier := flag.String("tier", "quick", "quick|thorough")
	list := flag.Bool("list", false, "list units")
	unit := flag.String("unit", "", "unit to run")
	shard := flag.Int("shard", 0, "")
	nshards := flag.Int("nshards", 1, "")
	bound := flag.Int("bound", -2, "override bound (-1 unbounded)")
	deadline := flag.Float64("deadline", 0, "seconds")
	out := flag.String("out", "", "result file")
	replay := flag.String("replay", "", "comma separated choice vector to replay (prints the trace)")
	replayFile := flag.String("replayfile", "", "replay artefact written by vcheck")
	c16child := flag.String("c16child", "", "internal: run C16 documents in-process")
	c16from := flag.Int("c16from", 0, "")
	cpuprof := flag.String("cpuprofile", "", "")
	flag.Parse()
	if *cpuprof != "" {
		f, _ := os.Create(*cpuprof)
		pprof.StartCPUProfile(f)
		defer pprof.StopCPUProfile()
	}
	if *c16child != "" {
		props.C16Child(*c16child, *c16from)
		return
	}
	units := props.Units(*prop, *tier)
	if units == nil {
		fmt.Fprintf(os.Stderr, "ha: unknown property %q\n", *prop)
		os.Exit(2)
	}
	if *list {
		type li struct {
			Name   string `json:"name"`
			Weight int    `json:"weight"`
			Shards int    `json:"shards"`
		}
		var l []li
		for _, u := range units {
			l = append(l, li{u.Name, u.Weight, u.Shards})
		}
		json.NewEncoder(os.Stdout).Encode(l)
		return
	}
	var u *vlab.Unit
	for _, c := range units {
		if c.Name == *unit {
			u = c
		}
	}
	if u == nil {
		fmt.Fprintf(os.Stderr, "ha: unknown unit %q\n", *unit)
		os.Exit(2)
	}
	if *replayFile != "" {
		os.Exit(vlab.ReplayUnit(u, "@"+*replayFile))
	}
	if *replay != "" {
		os.Exit(vlab.ReplayUnit(u, *replay))
	}
	var dl time.Time
	if *deadline > 0 {
		dl = time.Now().Add(time.Duration(*deadline * float64(time.Second)))
	}
	res := vlab.RunUnit(u, *shard, *nshards, dl, *bound)
	if *out != "" {
		if err := vlab.WriteJSON(*out, res); err != nil {
			fmt.Fprintln(os.Stderr, err)
			os.Exit(2)
		}
	} else {
		json.NewEncoder(os.Stdout).Encode(res)
	}
	pprof.StopCPUProfile()
	if res.HarnessErr != "" {
		fmt.Fprintln(os.Stderr, "ha: harness error:", res.HarnessErr)
		os.Exit(2)
	}
}
