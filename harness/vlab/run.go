package vlab

import (
	"context"
	"errors"
	"fmt"
	tsort "github.com/go-task/task/v3/internal/sort"
	"hash/fnv"
	"io"
	"os"
	"path/filepath"
	"runtime"
	"strings"
	"sync"

	"github.com/dominikbraun/graph"
	task "github.com/go-task/task/v3"
	terrors "github.com/go-task/task/v3/errors"
	"github.com/go-task/task/v3/taskfile/ast"
	"github.com/go-task/task/v3/zverif/vsched"
)

// Event is one probe event: a command starting ('S') or finishing ('F') its probe write.
type Event struct {
	K    byte
	Line string
	Tid  int
}

type Options struct {
	Concurrency  int
	Parallel     bool
	Force        bool
	ForceAll     bool
	AssumeYes    bool
	AssumeTerm   bool
	Dry          bool
	Summary      bool
	Output       string // "", "group", "prefixed"
	GroupBegin   string
	GroupEnd     string
	ErrorOnly    bool
	Stdin        string
	ExitCodeFlag bool
	NotSilent    bool
	WaitLog      bool // verbose logging on; "skipping execution of task" lines become 'L' trace events (no scheduling point)
	ListJSON     bool // instead of running tasks: e.ListTasks(list-all, json)
	SchedSetup   bool // Setup's reader/merge goroutines are scheduler threads too (not run inline)
	SchedDump    bool // with DumpOnly: the dump's own compile goroutines (GetTaskList) are scheduler threads too
	DumpOnly     bool // after Setup: record a canonical dump of what was loaded instead of running tasks
}

type CallSpec struct {
	Task string
	Vars [][2]string
}

// Scenario is a closed system: a Taskfile tree, executor options and the calls to run.
type Scenario struct {
	Name   string
	Files  map[string]string
	Opts   Options
	Calls  []CallSpec
	UsesFS bool              // tasks touch the file system (fingerprints): reset between runs, no state-key pruning
	Keep   map[string]string // files restored before every run when UsesFS
	Raw    bool              // record raw stdout instead of probes (C17 through the executor)
	Spec   any
	// AfterRun, when set, is called after every complete (not pruned) execution, outside the
	// scheduler, e.g. to run a follow-up invocation on the directory the execution left behind
	AfterRun func(dir string, x *Exec)
	// BodyFn, when set, replaces the Executor body: it is run as thread 0 under the scheduler
	BodyFn func(dir string, x *Exec, raw *RawWriter)
}

type Probe struct {
	mu    sync.Mutex // only used in free mode (real goroutines)
	Trace []Event
	Raw   []string
}

func hash64(s string) uint64 {
	h := fnv.New64a()
	h.Write([]byte(s))
	return h.Sum64()
}

func (p *Probe) Write(b []byte) (int, error) {
	if vsched.Aborting() {
		return len(b), nil
	}
	s := strings.TrimRight(string(b), "\n")
	if strings.TrimSpace(s) == "" {
		return len(b), nil
	}
	if !vsched.Active() {
		// free mode: real goroutines write concurrently
		p.mu.Lock()
		p.Trace = append(p.Trace, Event{'S', s, 0}, Event{'F', s, 0})
		p.mu.Unlock()
		return len(b), nil
	}
	tid := 0
	if t := vsched.Cur(); t != nil {
		tid = t.ID
	}
	vsched.Yield("probe.start")
	if vsched.Aborting() {
		return len(b), nil
	}
	p.Trace = append(p.Trace, Event{'S', s, tid})
	vsched.ObserveStdout(hash64("S" + s))
	vsched.Yield("probe.run")
	if vsched.Aborting() {
		return len(b), nil
	}
	p.Trace = append(p.Trace, Event{'F', s, tid})
	vsched.ObserveStdout(hash64("F" + s))
	return len(b), nil
}

// logProbe turns the executor's "skipping execution of task" log lines (a caller found a
// deduplicated execution registered and is about to wait for it) into 'L' trace events. It
// adds no scheduling point.
type logProbe struct{ p *Probe }

func (l *logProbe) Write(b []byte) (int, error) {
	s := strings.TrimSpace(string(b))
	if !strings.Contains(s, "skipping execution of task") || vsched.Aborting() {
		return len(b), nil
	}
	// "<taskfile path>:<local name>" (run: once) or "<task>:<hash>" (when_changed): keep what
	// follows the directory part, the project directory differs between runs
	s = strings.TrimSuffix(s, "\x1b[0m")
	if i := strings.LastIndex(s, "/"); i >= 0 {
		s = s[i+1:]
	} else if i := strings.LastIndex(s, "task: "); i >= 0 {
		s = s[i+6:]
	}
	s = "waits-for-shared-execution " + s
	tid := 0
	if t := vsched.Cur(); t != nil {
		tid = t.ID
	}
	if !vsched.Active() {
		l.p.mu.Lock()
		defer l.p.mu.Unlock()
	}
	l.p.Trace = append(l.p.Trace, Event{'L', s, tid})
	if vsched.Active() {
		vsched.ObserveStdout(hash64("L" + s))
	}
	return len(b), nil
}

func (p *Probe) VerifProbe()     {}
func (w *RawWriter) VerifProbe() {}

// RawWriter records every underlying write as one event and yields around it (C17).
type RawWriter struct {
	mu     sync.Mutex
	Writes []string
}

func (w *RawWriter) Write(b []byte) (int, error) {
	if vsched.Aborting() {
		return len(b), nil
	}
	if !vsched.Active() {
		w.mu.Lock()
		w.Writes = append(w.Writes, string(b))
		w.mu.Unlock()
		return len(b), nil
	}
	vsched.Yield("raw.write")
	if vsched.Aborting() {
		return len(b), nil
	}
	w.Writes = append(w.Writes, string(b))
	vsched.ObserveStdout(hash64("W" + string(b)))
	return len(b), nil
}

// Materialise writes the scenario's files below dir.
func (sc *Scenario) Materialise(dir string) error {
	for rel, content := range sc.Files {
		p := filepath.Join(dir, rel)
		if err := os.MkdirAll(filepath.Dir(p), 0o755); err != nil {
			return err
		}
		if strings.HasPrefix(content, "SYMLINK:") {
			os.Remove(p)
			if err := os.Symlink(strings.TrimPrefix(content, "SYMLINK:"), p); err != nil {
				return err
			}
			continue
		}
		if err := os.WriteFile(p, []byte(content), 0o644); err != nil {
			return err
		}
	}
	return nil
}

// ExitCode mirrors cmd/task/task.go's mapping of run()'s error to the process status.
func ExitCode(err error, exitCodeFlag bool) int {
	if err == nil {
		return 0
	}
	if e, ok := err.(*terrors.TaskRunError); ok && exitCodeFlag {
		return e.TaskExitCode()
	}
	if e, ok := err.(terrors.TaskError); ok {
		return e.Code()
	}
	return 1
}

// Body builds the function executed as thread 0: NewExecutor + Setup (inline) + Run.
func (sc *Scenario) Body(dir string, x *Exec, probe *Probe, raw *RawWriter) func() {
	return func() {
		var out io.Writer = probe
		if sc.Raw {
			out = raw
		}
		var errw io.Writer = io.Discard
		if sc.Opts.WaitLog {
			errw = &logProbe{p: probe}
		}
		opts := []task.ExecutorOption{
			task.WithDir(dir),
			task.WithStdout(out),
			task.WithStderr(errw),
			task.WithVerbose(sc.Opts.WaitLog),
			task.WithSilent(!sc.Opts.NotSilent),
			task.WithConcurrency(sc.Opts.Concurrency),
			task.WithParallel(sc.Opts.Parallel),
			task.WithForce(sc.Opts.Force),
			task.WithForceAll(sc.Opts.ForceAll),
			task.WithAssumeYes(sc.Opts.AssumeYes),
			task.WithAssumeTerm(sc.Opts.AssumeTerm),
			task.WithDry(sc.Opts.Dry),
			task.WithSummary(sc.Opts.Summary),
			task.WithStdin(&lineReader{s: sc.Opts.Stdin}),
			task.WithVersionCheck(true),
		}
		if sc.Opts.Output != "" {
			o := ast.Output{Name: sc.Opts.Output}
			if sc.Opts.Output == "group" {
				o.Group = ast.OutputGroup{Begin: sc.Opts.GroupBegin, End: sc.Opts.GroupEnd, ErrorOnly: sc.Opts.ErrorOnly}
			}
			opts = append(opts, task.WithOutputStyle(o))
		}
		e := task.NewExecutor(opts...)
		graph.VerifChoose = vsched.Choose
		if !sc.Opts.SchedSetup {
			vsched.Inline(true)
		}
		err := e.Setup()
		if !sc.Opts.SchedSetup {
			vsched.Inline(false)
		}
		if err != nil {
			x.Err = err
			return
		}
		if sc.Opts.DumpOnly {
			// (the dump itself is not part of the schedule space: its compile goroutines run inline;
			// Go-map orders inside it remain explored choices)
			if sc.Opts.SchedDump {
				x.Aux["dump"] = DumpExecutor(e)
				return
			}
			vsched.Inline(true)
			x.Aux["dump"] = DumpExecutor(e)
			vsched.Inline(false)
			return
		}
		if sc.Opts.ListJSON {
			_, x.Err = e.ListTasks(task.ListOptions{ListAllTasks: true, FormatTaskListAsJSON: true})
			return
		}
		var calls []*task.Call
		for _, c := range sc.Calls {
			call := &task.Call{Task: c.Task}
			if len(c.Vars) > 0 {
				call.Vars = ast.NewVars()
				for _, kv := range c.Vars {
					call.Vars.Set(kv[0], ast.Var{Value: kv[1]})
				}
			}
			calls = append(calls, call)
		}
		x.Err = e.Run(context.Background(), calls...)
		// what is still to come after this point happens after the invocation has returned
		probe.mu.Lock()
		probe.Trace = append(probe.Trace, Event{'R', "Run returned", 0})
		probe.mu.Unlock()
	}
}

// Runner returns the Run function for an Explorer: every call builds a fresh Executor in dir.
func (sc *Scenario) Runner(dir string) func(cfg vsched.Config) *Exec {
	return func(cfg vsched.Config) *Exec {
		if sc.UsesFS {
			sc.ResetFS(dir)
		}
		x := &Exec{Aux: map[string]string{}}
		probe := &Probe{}
		raw := &RawWriter{}
		if sc.BodyFn != nil {
			x.Res = vsched.Run(cfg, func() { sc.BodyFn(dir, x, raw) })
		} else {
			x.Res = vsched.Run(cfg, sc.Body(dir, x, probe, raw))
		}
		x.Trace = probe.Trace
		if sc.Raw || sc.BodyFn != nil {
			for _, w := range raw.Writes {
				x.Trace = append(x.Trace, Event{'W', w, 0})
			}
		}
		if races := CollectRaces(); len(races) > 0 {
			seen := map[string]bool{}
			for _, r := range races {
				if !seen[r.Sig] {
					seen[r.Sig] = true
					x.Races = append(x.Races, r)
				}
			}
		}
		if x.Res.Pruned || x.Res.Diverged != "" {
			return x
		}
		x.Code = ExitCode(x.Err, sc.Opts.ExitCodeFlag)
		if x.Err != nil {
			x.ErrStr = x.Err.Error()
		}
		if sc.AfterRun != nil && !x.Res.Deadlock && !x.Res.Horizon && x.Res.Panic == "" {
			sc.AfterRun(dir, x)
		}
		return x
	}
}

// ResetFS removes everything below dir that is not one of the scenario's own files and
// restores those.
func (sc *Scenario) ResetFS(dir string) {
	os.RemoveAll(filepath.Join(dir, ".task"))
	filepath.Walk(dir, func(p string, info os.FileInfo, err error) error {
		if err != nil || info.IsDir() {
			return nil
		}
		rel, _ := filepath.Rel(dir, p)
		if _, ok := sc.Files[rel]; !ok {
			os.Remove(p)
		}
		return nil
	})
	sc.Materialise(dir)
}

var ErrHarness = errors.New("harness error")

// lineReader hands out at most one line per Read, so that a bufio.Reader created per
// prompt does not swallow the answers meant for later prompts (as a terminal would not).
type lineReader struct{ s string }

func (r *lineReader) Read(p []byte) (int, error) {
	if len(r.s) == 0 || !calledFromPrompt() {
		// only the prompt is answered: mvdan/sh copies a non-file stdin to every command through
		// a helper goroutine, which would otherwise steal the answers in a race outside the scheduler
		return 0, io.EOF
	}
	n := strings.IndexByte(r.s, '\n') + 1
	if n <= 0 {
		n = len(r.s)
	}
	if n > len(p) {
		n = len(p)
	}
	copy(p, r.s[:n])
	r.s = r.s[n:]
	return n, nil
}

func calledFromPrompt() bool {
	pcs := make([]uintptr, 24)
	n := runtime.Callers(2, pcs)
	frames := runtime.CallersFrames(pcs[:n])
	for {
		f, more := frames.Next()
		if strings.HasSuffix(f.Function, "logger.(*Logger).Prompt") {
			return true
		}
		if !more {
			return false
		}
	}
}

// DumpExecutor renders what Setup computed in a canonical, order-preserving form: task names
// in merge order, aliases, attributes, fast-compiled commands/deps/dir of every task, global
// variables in order.
func DumpExecutor(e *task.Executor) string {
	var b strings.Builder
	b.WriteString("globals:")
	for k, v := range e.Taskfile.Vars.All() {
		sh := ""
		if v.Sh != nil {
			sh = "sh:" + *v.Sh
		}
		fmt.Fprintf(&b, " %s=%v%s@%s", k, v.Value, sh, strings.TrimPrefix(v.Dir, e.Dir))
	}
	b.WriteString("\nenv:")
	for k, v := range e.Taskfile.Env.All() {
		fmt.Fprintf(&b, " %s=%v", k, v.Value)
	}
	b.WriteString("\n")
	// what --list-all shows with the sorter that keeps definition order; its (fast-)compiled tasks
	// are the ones dumped below
	saved := e.TaskSorter
	e.TaskSorter = tsort.NoSort
	compiled := map[string]*ast.Task{}
	b.WriteString("list(none):")
	if ts, err := e.GetTaskList(); err != nil {
		fmt.Fprintf(&b, " error=%v", err)
	} else {
		for _, t := range ts {
			b.WriteString(" " + t.Task)
			compiled[t.Task] = t
		}
	}
	b.WriteString("\n")
	e.TaskSorter = saved
	for name := range e.Taskfile.Tasks.Keys(nil) {
		t, _ := e.Taskfile.Tasks.Get(name)
		fmt.Fprintf(&b, "task %s aliases=%v internal=%v silent=%v", name, t.Aliases, t.Internal, t.Silent)
		ct := compiled[name]
		if ct == nil {
			var err error
			if ct, err = e.FastCompiledTask(&task.Call{Task: name}); err != nil {
				fmt.Fprintf(&b, " compile-error=%v\n", err)
				continue
			}
		}
		fmt.Fprintf(&b, " dir=%s", strings.TrimPrefix(ct.Dir, e.Dir))
		for _, vs := range []*ast.Vars{t.IncludeVars, t.IncludedTaskfileVars} {
			b.WriteString(" [")
			if vs != nil {
				for k, v := range vs.All() {
					sh := ""
					if v.Sh != nil {
						sh = "sh:" + *v.Sh
					}
					fmt.Fprintf(&b, "%s=%v%s@%s ", k, v.Value, sh, strings.TrimPrefix(v.Dir, e.Dir))
				}
			}
			b.WriteString("]")
		}
		for _, d := range ct.Deps {
			fmt.Fprintf(&b, " dep=%s", d.Task)
		}
		for _, c := range ct.Cmds {
			fmt.Fprintf(&b, " cmd=[%s|%s]", c.Cmd, c.Task)
		}
		b.WriteString("\n")
	}
	return b.String()
}
