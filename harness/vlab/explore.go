// Package vlab is the harness-side library: stateless exhaustive exploration of schedules
// (iterative context bounding + happens-before state-key pruning), probe recording, scenario
// materialisation and the worker protocol spoken with cmd/vcheck.
package vlab

import (
	"fmt"
	"hash/fnv"
	"os"
	"sort"
	"time"

	"github.com/go-task/task/v3/zverif/vsched"
)

// Exec is one complete (or pruned) execution of a scenario.
type Exec struct {
	Res    *vsched.Result
	Trace  []Event
	Err    error
	Code   int    // exit status the CLI would produce for Err
	ErrStr string // Err.Error() or ""
	Aux    map[string]string
	Races  []RaceReport
}

func (x *Exec) Choices() []int {
	c := make([]int, len(x.Res.Points))
	for i, p := range x.Res.Points {
		c[i] = p.Choice
	}
	return c
}

// Outcome is a canonical description of what was observable (trace + result).
func (x *Exec) Outcome() string {
	s := ""
	for _, e := range x.Trace {
		s += string(e.K) + e.Line + "\n"
	}
	s += fmt.Sprintf("code=%d", x.Code)
	if x.Res.Deadlock {
		s += " DEADLOCK"
	}
	if x.Res.Horizon {
		s += " HORIZON"
	}
	if x.Res.Panic != "" {
		s += " PANIC"
	}
	for _, k := range sortedKeys(x.Aux) {
		s += " " + k + "=" + x.Aux[k]
	}
	return s
}

func sortedKeys(m map[string]string) []string {
	ks := make([]string, 0, len(m))
	for k := range m {
		ks = append(ks, k)
	}
	sort.Strings(ks)
	return ks
}

// Violation of a property clause in one execution.
type Violation struct {
	Property string   `json:"property"`
	Clause   string   `json:"clause"`
	Sig      string   `json:"sig"` // canonical signature: property:clause:tags
	Detail   string   `json:"detail"`
	Scenario string   `json:"scenario"`
	Choices  []int    `json:"choices"`
	W        []uint64 `json:"w,omitempty"`
	Input    any      `json:"input,omitempty"`
	Trace    []string `json:"trace"`
	Preempt  int      `json:"preemptions"`
	Confirm  int      `json:"confirmed_replays"`
}

type Stats struct {
	Scenario          string         `json:"scenario"`
	Bound             int            `json:"bound"`           // preemption bound of the reported pass; -1 = unbounded
	Completed         int            `json:"completed_bound"` // highest bound explored completely (-2: none)
	Exhaustive        bool           `json:"exhaustive"`
	Execs             int            `json:"executions"`
	Pruned            int            `json:"pruned"`
	States            int            `json:"states"`
	Transitions       int            `json:"transitions"`
	Points            int            `json:"choice_points"`
	MaxEnabled        int            `json:"max_enabled"`
	MaxOps            uint64         `json:"max_hooked_ops_per_execution"`
	SplitPassRestarts int            `json:"w_restarts_in_split_pass,omitempty"`
	MaxThreads        int            `json:"max_threads"`
	Outcomes          int            `json:"distinct_outcomes"`
	OutcomeHist       map[string]int `json:"-"`
	Restarts          int            `json:"w_restarts"`
	TotalRuns         int            `json:"total_runs_including_discovery_passes"`
	Deadlocks         int            `json:"deadlocks"`
	WallS             float64        `json:"wall_s"`
	SampleTraces      [][]string     `json:"sample_traces,omitempty"`
	Note              string         `json:"note,omitempty"`
}

type Explorer struct {
	Name     string
	Bound    int // max preemptions+deviations; -1 = unbounded (needs Prune)
	Prune    bool
	Shard    int
	NShards  int
	Deadline time.Time
	MaxExecs int
	// Run executes the scenario once under the scheduler.
	Run func(cfg vsched.Config) *Exec
	// Check evaluates the property's oracles on one complete execution.
	Check func(x *Exec) []Violation
	// Exists-style goals: Goal returns the names of goals this execution witnesses.
	Goal func(x *Exec) []string

	EnvChoices bool
	NoPruneFS  bool
	AllVisible bool
	NoConfirm  bool // do not demand 5 identical replays (race reports may be rate limited by the detector)

	Stats      Stats
	Violations []Violation
	Goals      map[string]bool
	HarnessErr string

	w        []uint64
	seen     map[uint64]int
	states   map[uint64]struct{}
	outcomes map[uint64]int
	cut      bool
	sticky   map[string]Violation
	topCount int
	sigSeen  map[string]int
}

type restart struct{}

var debugSched = os.Getenv("VERIF_DEBUG_SCHED") != ""

// SetW seeds the persistent shared-object set (W cache); W returns a copy of it (deduplicated).
func (e *Explorer) SetW(w []uint64) { e.w = append([]uint64(nil), w...) }
func (e *Explorer) W() []uint64 {
	seen := map[uint64]bool{}
	var out []uint64
	for _, x := range e.w {
		if !seen[x] {
			seen[x] = true
			out = append(out, x)
		}
	}
	return out
}

func (e *Explorer) Explore() {
	start := time.Now()
	e.Goals = map[string]bool{}
	e.sigSeen = map[string]int{}
	e.sticky = map[string]Violation{}
	final := e.Bound
	// iterative deepening: the cheap low bounds discover the shared-object set W (each discovery
	// restarts only the current, cheap pass); only the final pass is reported.
	bounds := []int{final}
	if final > 1 || final < 0 {
		bounds = []int{0, 1, final}
	} else if final == 1 {
		bounds = []int{0, 1}
	}
	bi := 0
	completed := -2
	var lastDone *Stats
	var lastViol []Violation
	nshards := e.NShards
	for {
		e.Bound = bounds[bi]
		// the discovery passes are not split: every shard runs them completely and therefore ends
		// them with the same shared-object set W, which makes the executions above the split (and
		// with them the numbering of the subtrees) identical in all shards of the final pass
		e.NShards = nshards
		if bi < len(bounds)-1 {
			e.NShards = 1
		}
		e.seen = map[uint64]int{}
		e.states = map[uint64]struct{}{}
		e.outcomes = map[uint64]int{}
		e.Stats = Stats{Scenario: e.Name, Bound: e.Bound, Restarts: e.Stats.Restarts, SplitPassRestarts: e.Stats.SplitPassRestarts, Note: e.Stats.Note, TotalRuns: e.Stats.TotalRuns, OutcomeHist: map[string]int{}}
		e.Violations = nil
		e.sigSeen = map[string]int{}
		e.cut = false
		e.topCount = 0
		if e.tryExplore() {
			if !e.cut && e.HarnessErr == "" {
				completed = e.Bound
				st := e.Stats
				st.States = len(e.states)
				st.Outcomes = len(e.outcomes)
				lastDone = &st
				lastViol = e.Violations
			}
			if bi == len(bounds)-1 || e.cut || e.HarnessErr != "" {
				break
			}
			bi++
			continue
		}
		e.Stats.Restarts++
		if bi == len(bounds)-1 && nshards > 1 {
			// a new shared object in the split pass: this shard's W now differs from the others';
			// the driver re-runs all shards of the unit from the merged W cache
			e.Stats.SplitPassRestarts++
		}
		e.Stats.Note += fmt.Sprintf("restart@b%d/x%d ", e.Bound, e.Stats.Execs)
		if e.Stats.Restarts > 50 {
			e.HarnessErr = "too many W restarts"
			break
		}
	}
	e.Stats.States = len(e.states)
	e.Stats.Outcomes = len(e.outcomes)
	e.Stats.Exhaustive = !e.cut
	if e.cut && lastDone != nil {
		// the deadline hit the deeper pass: report the last bound that was explored completely,
		// keep anything the cut pass found on top of it
		cutViol := e.Violations
		note := fmt.Sprintf("%sbound %d cut by deadline after %d executions; ", e.Stats.Note, e.Bound, e.Stats.Execs)
		total := e.Stats.TotalRuns
		e.Stats = *lastDone
		e.Stats.Note = note
		e.Stats.TotalRuns = total
		e.Stats.Exhaustive = false
		e.Violations = lastViol
		have := map[string]bool{}
		for _, v := range e.Violations {
			have[v.Sig] = true
		}
		for _, v := range cutViol {
			if !have[v.Sig] {
				e.Violations = append(e.Violations, v)
			}
		}
	}
	// race reports are emitted once per process by the detector: keep them across passes
	have := map[string]bool{}
	for _, v := range e.Violations {
		have[v.Sig] = true
	}
	for sig, v := range e.sticky {
		if !have[sig] {
			e.Violations = append(e.Violations, v)
			e.sigSeen[sig]++
		}
	}
	e.Stats.Completed = completed
	e.Stats.WallS = time.Since(start).Seconds()
}

func (e *Explorer) tryExplore() (ok bool) {
	defer func() {
		if r := recover(); r != nil {
			if _, is := r.(restart); is {
				ok = false
				return
			}
			panic(r)
		}
	}()
	e.explore(nil, 0)
	return true
}

func (e *Explorer) countStateOnly(key uint64, spent int) bool {
	e.states[key] = struct{}{}
	return false
}

func (e *Explorer) pruneFn(key uint64, spent int) bool {
	e.states[key] = struct{}{}
	if !e.Prune {
		return false
	}
	rem := 1 << 30
	if e.Bound >= 0 {
		rem = e.Bound - spent
	}
	if b, ok := e.seen[key]; ok && b >= rem {
		return true
	}
	e.seen[key] = rem
	return false
}

// shardDepth: the search tree is split over the shards at this depth (the subtrees below the
// second-level nodes are of far more even size than those below the first-level ones); the few
// executions above it are run by every shard and judged by shard 0 only.
const shardDepth = 1

func (e *Explorer) explore(prefix []int, depth int) {
	if e.cut || e.HarnessErr != "" {
		return
	}
	if (!e.Deadline.IsZero() && time.Now().After(e.Deadline)) || (e.MaxExecs > 0 && e.Stats.Execs >= e.MaxExecs) {
		e.cut = true
		return
	}
	cfg := vsched.Config{Prefix: prefix, Prune: e.pruneFn, W: e.w, EnvChoices: e.EnvChoices, YieldAfterRelease: e.NoConfirm || e.AllVisible, AllVisible: e.AllVisible, Watchdog: 120 * time.Second}
	if e.NShards > 1 && depth <= shardDepth {
		// the executions above the split are the same in every shard (so that all shards number
		// the subtrees alike) and leave nothing in the prune table: a shard explores only its
		// share of their subtrees, so having "seen" their states would prove nothing
		cfg.Prune = e.countStateOnly
	}
	x := e.Run(cfg)
	e.Stats.Execs++
	e.Stats.TotalRuns++
	e.Stats.Transitions += x.Res.Steps
	e.Stats.Points += len(x.Res.Points)
	if x.Res.Ops > e.Stats.MaxOps {
		e.Stats.MaxOps = x.Res.Ops
	}
	if x.Res.MaxEnable > e.Stats.MaxEnabled {
		e.Stats.MaxEnabled = x.Res.MaxEnable
	}
	if x.Res.Threads > e.Stats.MaxThreads {
		e.Stats.MaxThreads = x.Res.Threads
	}
	if debugSched {
		line := fmt.Sprintf("EXEC b=%d pruned=%v races=%d:", e.Bound, x.Res.Pruned, len(x.Races))
		for _, p := range x.Res.Points {
			line += fmt.Sprintf(" %s/t%d/%d", p.Label, p.Tid, p.Choice)
		}
		fmt.Fprintln(os.Stderr, line)
	}
	if len(x.Races) > 0 {
		// the detector reports a race once per process: never lose a report, whatever happens to
		// this execution afterwards (restart, pruning)
		e.observeRaces(x)
	}
	if x.Res.Diverged != "" {
		e.HarnessErr = fmt.Sprintf("scenario %s: replay diverged: %s (prefix %v)", e.Name, x.Res.Diverged, prefix)
		return
	}
	if len(x.Res.NewW) > 0 {
		e.w = append(e.w, x.Res.NewW...)
		panic(restart{})
	}
	if x.Res.Pruned {
		e.Stats.Pruned++
	} else {
		mine := e.NShards <= 1 || depth > shardDepth || e.Shard == 0
		if mine {
			e.observe(x)
		}
	}
	pts := x.Res.Points
	pre := 0
	choices := x.Choices()
	for i, p := range pts {
		if i >= len(prefix) {
			for alt := 1; alt < p.N; alt++ {
				cost := pre
				if p.CurEnabled || p.Env {
					cost++
				}
				if e.Bound >= 0 && cost > e.Bound {
					continue
				}
				if depth == shardDepth && e.NShards > 1 {
					e.topCount++
					if e.topCount%e.NShards != e.Shard {
						continue
					}
				}
				np := make([]int, i+1)
				copy(np, choices[:i])
				np[i] = alt
				e.explore(np, depth+1)
				if e.cut || e.HarnessErr != "" {
					return
				}
			}
		}
		if (p.CurEnabled || p.Env) && p.Choice != 0 {
			pre++
		}
	}
}

func (e *Explorer) observe(x *Exec) {
	oc := x.Outcome()
	h := fnv.New64a()
	h.Write([]byte(oc))
	k := h.Sum64()
	if _, ok := e.outcomes[k]; !ok && len(e.Stats.SampleTraces) < 3 {
		e.Stats.SampleTraces = append(e.Stats.SampleTraces, traceLines(x))
	}
	e.outcomes[k]++
	if x.Res.Deadlock {
		e.Stats.Deadlocks++
	}
	if e.Goal != nil {
		for _, g := range e.Goal(x) {
			e.Goals[g] = true
		}
	}
	if e.Check == nil {
		return
	}
	for _, v := range e.Check(x) {
		// keep the first (fewest-deviation, by construction of the search order) witness per signature
		e.sigSeen[v.Sig]++
		if e.sigSeen[v.Sig] > 1 {
			continue
		}
		v.Scenario = e.Name
		v.Choices = x.Choices()
		v.W = append([]uint64(nil), e.w...)
		v.Trace = traceLines(x)
		v.Preempt = preemptions(x)
		// re-execute 5 times from the recorded choice vector: the same schedule must fail every time
		conf := 0
		for r := 0; r < 5; r++ {
			y := e.Run(vsched.Config{Prefix: v.Choices, W: e.w, EnvChoices: e.EnvChoices, YieldAfterRelease: e.NoConfirm || e.AllVisible, AllVisible: e.AllVisible, Watchdog: 120 * time.Second})
			if y.Res.Diverged != "" || y.Outcome() != oc {
				continue
			}
			for _, v2 := range e.Check(y) {
				if v2.Sig == v.Sig {
					conf++
					break
				}
			}
		}
		v.Confirm = conf
		if e.NoConfirm {
			e.sticky[v.Sig] = v
		}
		if conf < 5 && !e.NoConfirm {
			e.HarnessErr = fmt.Sprintf("scenario %s: violation %s reproduced only %d/5 times from its choice vector %v (uncaptured nondeterminism)", e.Name, v.Sig, conf, v.Choices)
			return
		}
		e.Violations = append(e.Violations, v)
	}
}

func (e *Explorer) SigCounts() map[string]int { return e.sigSeen }

func preemptions(x *Exec) int {
	n := 0
	for _, p := range x.Res.Points {
		if (p.CurEnabled || p.Env) && p.Choice != 0 {
			n++
		}
	}
	return n
}

func traceLines(x *Exec) []string {
	out := make([]string, 0, len(x.Trace)+1)
	for _, ev := range x.Trace {
		out = append(out, string(ev.K)+" "+ev.Line)
	}
	tail := fmt.Sprintf("=> code=%d err=%q", x.Code, x.ErrStr)
	if x.Res.Deadlock {
		tail += fmt.Sprintf(" DEADLOCK %v", x.Res.Blocked)
	}
	if x.Res.Horizon {
		tail += " HORIZON"
	}
	if x.Res.Panic != "" {
		tail += " PANIC " + firstLine(x.Res.Panic)
	}
	return append(out, tail)
}

func firstLine(s string) string {
	for i := 0; i < len(s); i++ {
		if s[i] == '\n' {
			return s[:i]
		}
	}
	return s
}

func vschedCfg(prefix []int, env bool) vsched.Config {
	return vsched.Config{Prefix: prefix, EnvChoices: env, Watchdog: 120 * time.Second}
}

// observeRaces records race reports of an execution that was abandoned by pruning (the report
// was produced by the prefix that did run).
func (e *Explorer) observeRaces(x *Exec) {
	for _, r := range x.Races {
		v := V("C18", "race", r.Sig, "ThreadSanitizer report in an explored schedule:\n"+r.Text)
		if _, ok := e.sticky[v.Sig]; ok {
			continue
		}
		v.Scenario = e.Name
		v.Choices = x.Choices()
		v.W = append([]uint64(nil), e.w...)
		v.Trace = traceLines(x)
		e.sticky[v.Sig] = v
	}
}
