package vlab

import (
	"os"
	"path/filepath"
	"regexp"
	"sort"
	"strings"
)

// Race-detector mode (C18): the harness is built with -race; GORACE log_path points at
// VERIF_RACE_LOG.<pid>. After every execution the new part of the log is parsed; reports whose
// two access stacks both run through Task's own code (module frames outside zverif) and whose
// accessing functions are not harness code are attributed to that execution.

var raceOff = map[string]int64{}

type RaceReport struct {
	Sig  string
	Text string
}

var frameRe = regexp.MustCompile(`^\s+(\S+)\(\)$`)

const taskMod = "github.com/go-task/task/v3"

func classifyStack(block string) (top string, hasTask bool, topHarness bool) {
	lines := strings.Split(block, "\n")
	first := true
	for i, l := range lines {
		m := frameRe.FindStringSubmatch(l)
		if m == nil {
			continue
		}
		fn := m[1]
		loc := ""
		if i+1 < len(lines) {
			loc = strings.TrimSpace(lines[i+1])
			if j := strings.IndexByte(loc, ' '); j > 0 {
				loc = loc[:j]
			}
		}
		isRuntime := strings.HasPrefix(fn, "runtime.") || strings.HasPrefix(fn, "internal/") || strings.HasPrefix(fn, "sync.") || strings.HasPrefix(fn, "sync/atomic.")
		isHarness := strings.Contains(fn, taskMod+"/zverif/")
		isTask := strings.HasPrefix(fn, taskMod) && !isHarness
		if first && !isRuntime {
			first = false
			topHarness = isHarness
			// function name + file:line without the address offset
			top = strings.TrimPrefix(fn, taskMod) + "@" + filepath.Base(loc)
		}
		if isTask {
			hasTask = true
		}
	}
	return
}

// CollectRaces returns the qualifying race reports written since the previous call.
func CollectRaces() []RaceReport {
	prefix := os.Getenv("VERIF_RACE_LOG")
	if prefix == "" {
		return nil
	}
	files, _ := filepath.Glob(prefix + ".*")
	var out []RaceReport
	for _, f := range files {
		st, err := os.Stat(f)
		if err != nil || st.Size() <= raceOff[f] {
			continue
		}
		fh, err := os.Open(f)
		if err != nil {
			continue
		}
		buf := make([]byte, st.Size()-raceOff[f])
		fh.ReadAt(buf, raceOff[f])
		fh.Close()
		raceOff[f] = st.Size()
		for _, rep := range strings.Split(string(buf), "==================") {
			if !strings.Contains(rep, "WARNING: DATA RACE") {
				continue
			}
			// the two access stacks are the first two paragraphs
			paras := strings.Split(strings.TrimSpace(rep), "\n\n")
			if len(paras) < 2 {
				continue
			}
			t1, task1, h1 := classifyStack(paras[0])
			t2, task2, h2 := classifyStack(paras[1])
			if h1 || h2 || !task1 || !task2 {
				continue
			}
			pair := []string{t1, t2}
			sort.Strings(pair)
			out = append(out, RaceReport{Sig: pair[0] + "|" + pair[1], Text: rep})
		}
	}
	return out
}
