package vlab

import (
	"fmt"
	"sort"
	"strings"
)

// Ref is a reference to a task from deps or from a task-call command.
type Ref struct {
	Task string
	// As: the name written in the Taskfile for this reference when it differs from the task's
	// canonical name (an alias, or a name matched by the task's wildcard pattern)
	As string
	// VP: constant instance key passed to deduplicated targets ("=" / "=k1"); empty means
	// the callee's VP is derived from the caller's ("<caller VP>><caller>.<site>").
	VP   string
	Vars [][2]string
	// ListVars are passed as YAML lists (value = space separated items)
	ListVars [][2]string
	Silent   bool
}

type For struct {
	List   []string
	Matrix [][]string // Matrix[i][0] = key, rest = values (row-major expansion expected)
	Var    string     // loop over a variable (split on whitespace)
	// MatrixRef rows: [key, variable name]; the row is `ref: .<variable>` (a list passed by the caller)
	MatrixRef [][2]string
}

// C is one cmds entry.
type C struct {
	Exit int // exit code of the probe (0 = success)
	// ExitVar: the exit code is the value of this (call) variable instead of Exit
	ExitVar     string
	IgnoreError bool // cmd-level ignore_error
	Call        *Ref // task call instead of a probe
	Defer       bool
	For         *For
	Extra       string // extra template text echoed in the probe's last field
	ShExtra     string // extra shell text (expanded by the shell inside double quotes) appended to the probe line
	Silent      bool
}

type T struct {
	Name          string
	Run           string
	Deps          []Ref
	Cmds          []C
	IgnoreError   bool
	Internal      bool
	Platforms     []string
	Requires      []string
	RequiresEnum  [][]string // [name, allowed...]
	Preconditions []string   // sh expressions
	Prompt        []string
	Vars          [][2]string
	Env           [][2]string
	Sources       []string
	Generates     []string
	Status        []string
	Method        string
	Dir           string
	Aliases       []string
	Label         string
	Prefix        string
	RawLines      []string // extra yaml lines (already indented by 4)
}

type Prog struct {
	Tasks    []*T
	Run      string
	Output   string
	Method   string
	Vars     [][2]string
	Env      [][2]string
	RawTop   []string
	Includes []string // raw yaml lines under includes:
}

func (pg *Prog) Task(name string) *T {
	for _, t := range pg.Tasks {
		if t.Name == name {
			return t
		}
	}
	return nil
}

func (pg *Prog) Mode(t *T) string {
	m := t.Run
	if m == "" {
		m = pg.Run
	}
	if m == "" {
		m = "always"
	}
	return m
}

func q(s string) string { return "'" + strings.ReplaceAll(s, "'", "''") + "'" }

func refVars(owner string, site string, r Ref) string {
	var kv []string
	if r.VP != "" {
		kv = append(kv, "VP: "+q(r.VP))
	} else {
		kv = append(kv, "VP: "+q("{{.VP}}>"+owner+"."+site))
	}
	for _, v := range r.Vars {
		if strings.HasPrefix(v[1], "RAW:") { // a YAML scalar that is not a string (3, false)
			kv = append(kv, v[0]+": "+strings.TrimPrefix(v[1], "RAW:"))
			continue
		}
		kv = append(kv, v[0]+": "+q(v[1]))
	}
	for _, v := range r.ListVars {
		kv = append(kv, v[0]+": ["+strings.Join(mapq(strings.Fields(v[1])), ", ")+"]")
	}
	return "{" + strings.Join(kv, ", ") + "}"
}

func forYAML(f *For) string {
	if f.Var != "" {
		return "{var: " + f.Var + "}"
	}
	if len(f.MatrixRef) > 0 {
		var rows []string
		for _, r := range f.MatrixRef {
			rows = append(rows, r[0]+": {ref: ."+r[1]+"}")
		}
		return "{matrix: {" + strings.Join(rows, ", ") + "}}"
	}
	if len(f.Matrix) > 0 {
		var rows []string
		for _, r := range f.Matrix {
			if len(r) == 3 && r[1] == "@ref" { // a row that is a reference to a list variable
				rows = append(rows, r[0]+": {ref: ."+r[2]+"}")
				continue
			}
			var vs []string
			for _, v := range r[1:] {
				vs = append(vs, q(v))
			}
			rows = append(rows, r[0]+": ["+strings.Join(vs, ", ")+"]")
		}
		return "{matrix: {" + strings.Join(rows, ", ") + "}}"
	}
	var vs []string
	for _, v := range f.List {
		vs = append(vs, q(v))
	}
	return "[" + strings.Join(vs, ", ") + "]"
}

// itemTmpl is the template text identifying the loop item inside probe ids / VP sites.
func itemTmpl(f *For) string {
	if f == nil {
		return ""
	}
	if len(f.MatrixRef) > 0 {
		var parts []string
		for _, r := range f.MatrixRef {
			parts = append(parts, "{{.ITEM."+r[0]+"}}")
		}
		return "#" + strings.Join(parts, ".")
	}
	if len(f.Matrix) > 0 {
		var parts []string
		for _, r := range f.Matrix {
			parts = append(parts, "{{.ITEM."+r[0]+"}}")
		}
		return "#" + strings.Join(parts, ".")
	}
	return "#{{.ITEM}}"
}

// Items expands a loop in the documented order (list order / row-major matrix order).
func (f *For) Items(vars map[string]string) []string {
	if f == nil {
		return []string{""}
	}
	if f.Var != "" {
		var out []string
		for _, s := range strings.Fields(vars[f.Var]) {
			out = append(out, "#"+s)
		}
		return out
	}
	mat := f.Matrix
	if len(f.MatrixRef) > 0 {
		mat = nil
		for _, r := range f.MatrixRef {
			mat = append(mat, append([]string{r[0]}, strings.Fields(vars[r[1]])...))
		}
	}
	if len(mat) > 0 {
		out := []string{""}
		for _, r := range mat {
			if len(r) == 3 && r[1] == "@ref" {
				r = append([]string{r[0]}, strings.Fields(vars[r[2]])...)
			}
			var next []string
			for _, p := range out {
				for _, v := range r[1:] {
					if p == "" {
						next = append(next, v)
					} else {
						next = append(next, p+"."+v)
					}
				}
			}
			out = next
		}
		for i := range out {
			out[i] = "#" + out[i]
		}
		return out
	}
	var out []string
	for _, s := range f.List {
		out = append(out, "#"+s)
	}
	return out
}

func probeCmd(task string, idx int, c C) string {
	id := fmt.Sprintf("P|%s|%d%s|{{.VP}}|%s", task, idx, itemTmpl(c.For), c.Extra)
	s := "printf '%s\\n' " + shq(id)
	if c.ShExtra != "" {
		s += `"` + c.ShExtra + `"`
	}
	if c.ExitVar != "" {
		s += "; exit {{." + c.ExitVar + "}}"
	} else if c.Exit != 0 {
		s += fmt.Sprintf("; exit %d", c.Exit)
	}
	return s
}

func shq(s string) string { return "'" + strings.ReplaceAll(s, "'", `'\''`) + "'" }

// YAML renders the program as a Taskfile.
func (pg *Prog) YAML() string {
	var b strings.Builder
	b.WriteString("version: '3'\n")
	if pg.Run != "" {
		b.WriteString("run: " + pg.Run + "\n")
	}
	if pg.Method != "" {
		b.WriteString("method: " + pg.Method + "\n")
	}
	if pg.Output != "" {
		b.WriteString("output: " + pg.Output + "\n")
	}
	for _, l := range pg.RawTop {
		b.WriteString(l + "\n")
	}
	if len(pg.Includes) > 0 {
		b.WriteString("includes:\n")
		for _, l := range pg.Includes {
			b.WriteString("  " + l + "\n")
		}
	}
	writeKV := func(indent, key string, kv [][2]string) {
		if len(kv) == 0 {
			return
		}
		b.WriteString(indent + key + ":\n")
		for _, v := range kv {
			b.WriteString(indent + "  " + v[0] + ": " + q(v[1]) + "\n")
		}
	}
	writeKV("", "vars", pg.Vars)
	writeKV("", "env", pg.Env)
	b.WriteString("tasks:\n")
	for _, t := range pg.Tasks {
		b.WriteString("  " + q(t.Name) + ":\n")
		if t.Run != "" {
			b.WriteString("    run: " + t.Run + "\n")
		}
		if t.IgnoreError {
			b.WriteString("    ignore_error: true\n")
		}
		if t.Internal {
			b.WriteString("    internal: true\n")
		}
		if t.Method != "" {
			b.WriteString("    method: " + t.Method + "\n")
		}
		if t.Dir != "" {
			b.WriteString("    dir: " + q(t.Dir) + "\n")
		}
		if t.Label != "" {
			b.WriteString("    label: " + q(t.Label) + "\n")
		}
		if t.Prefix != "" {
			b.WriteString("    prefix: " + q(t.Prefix) + "\n")
		}
		if len(t.Aliases) > 0 {
			b.WriteString("    aliases: [" + strings.Join(mapq(t.Aliases), ", ") + "]\n")
		}
		if len(t.Platforms) > 0 {
			b.WriteString("    platforms: [" + strings.Join(mapq(t.Platforms), ", ") + "]\n")
		}
		if len(t.Requires) > 0 || len(t.RequiresEnum) > 0 {
			b.WriteString("    requires:\n      vars:\n")
			for _, r := range t.Requires {
				b.WriteString("        - " + r + "\n")
			}
			for _, r := range t.RequiresEnum {
				b.WriteString("        - name: " + r[0] + "\n          enum: [" + strings.Join(mapq(r[1:]), ", ") + "]\n")
			}
		}
		if len(t.Preconditions) > 0 {
			b.WriteString("    preconditions:\n")
			for _, p := range t.Preconditions {
				b.WriteString("      - sh: " + q(p) + "\n")
			}
		}
		if len(t.Prompt) == 1 {
			b.WriteString("    prompt: " + q(t.Prompt[0]) + "\n")
		} else if len(t.Prompt) > 1 {
			b.WriteString("    prompt: [" + strings.Join(mapq(t.Prompt), ", ") + "]\n")
		}
		writeKV("    ", "vars", t.Vars)
		writeKV("    ", "env", t.Env)
		if len(t.Sources) > 0 {
			b.WriteString("    sources: [" + strings.Join(mapq(t.Sources), ", ") + "]\n")
		}
		if len(t.Generates) > 0 {
			b.WriteString("    generates: [" + strings.Join(mapq(t.Generates), ", ") + "]\n")
		}
		if len(t.Status) > 0 {
			b.WriteString("    status: [" + strings.Join(mapq(t.Status), ", ") + "]\n")
		}
		for _, l := range t.RawLines {
			b.WriteString("    " + l + "\n")
		}
		if len(t.Deps) > 0 {
			b.WriteString("    deps:\n")
			for k, d := range t.Deps {
				b.WriteString("      - task: " + q(refName(d)) + "\n")
				b.WriteString("        vars: " + refVars(t.Name, fmt.Sprintf("d%d", k), d) + "\n")
				if d.Silent {
					b.WriteString("        silent: true\n")
				}
			}
		}
		if len(t.Cmds) > 0 {
			b.WriteString("    cmds:\n")
			for j, c := range t.Cmds {
				pre := "      - "
				cont := "        "
				if c.For != nil {
					b.WriteString(pre + "for: " + forYAML(c.For) + "\n")
					pre = cont
				}
				switch {
				case c.Call != nil && c.Defer:
					b.WriteString(pre + "defer: {task: " + q(refName(*c.Call)) + ", vars: " + refVars(t.Name, fmt.Sprintf("c%d%s", j, itemTmpl(c.For)), *c.Call) + "}\n")
				case c.Call != nil:
					b.WriteString(pre + "task: " + q(refName(*c.Call)) + "\n")
					b.WriteString(cont + "vars: " + refVars(t.Name, fmt.Sprintf("c%d%s", j, itemTmpl(c.For)), *c.Call) + "\n")
				case c.Defer:
					b.WriteString(pre + "defer: " + q(probeCmd(t.Name, j, c)) + "\n")
				default:
					b.WriteString(pre + "cmd: " + q(probeCmd(t.Name, j, c)) + "\n")
				}
				if c.IgnoreError {
					b.WriteString(cont + "ignore_error: true\n")
				}
				if c.Silent {
					b.WriteString(cont + "silent: true\n")
				}
			}
		}
	}
	return b.String()
}

func refName(r Ref) string {
	if r.As != "" {
		return r.As
	}
	return r.Task
}

func mapq(ss []string) []string {
	out := make([]string, len(ss))
	for i, s := range ss {
		out[i] = q(s)
	}
	return out
}

// PE is a parsed probe event.
type PE struct {
	K     byte
	Task  string
	Idx   string // "2" or "2#item"
	VP    string
	Extra string
	Pos   int
	Tid   int
}

func (p PE) Inst() Inst { return Inst{p.Task, p.VP} }

// CmdIndex returns the cmds index and the loop item ("" if none).
func (p PE) CmdIndex() (int, string) {
	s := p.Idx
	item := ""
	if i := strings.IndexByte(s, '#'); i >= 0 {
		item = s[i:]
		s = s[:i]
	}
	n := 0
	fmt.Sscanf(s, "%d", &n)
	return n, item
}

// Inst identifies one execution instance of a task.
type Inst struct {
	Task string
	VP   string
}

func (i Inst) String() string { return i.Task + "@" + i.VP }

// ParseTrace turns probe lines into structured events; lines that are not probes are kept
// with Task "".
func ParseTrace(tr []Event) []PE {
	out := make([]PE, 0, len(tr))
	for i, e := range tr {
		pe := PE{K: e.K, Pos: i, Tid: e.Tid}
		parts := strings.SplitN(e.Line, "|", 5)
		if len(parts) == 5 && parts[0] == "P" {
			pe.Task, pe.Idx, pe.VP, pe.Extra = parts[1], parts[2], parts[3], parts[4]
		} else {
			pe.Extra = e.Line
		}
		out = append(out, pe)
	}
	return out
}

// TraceIndex supports "has event X happened before position p" queries.
type TraceIndex struct {
	Ev  []PE
	pos map[string][]int
}

func evKey(k byte, task, idx, vp string) string { return string(k) + "|" + task + "|" + idx + "|" + vp }

func IndexTrace(ev []PE) *TraceIndex {
	ti := &TraceIndex{Ev: ev, pos: map[string][]int{}}
	for _, e := range ev {
		k := evKey(e.K, e.Task, e.Idx, e.VP)
		ti.pos[k] = append(ti.pos[k], e.Pos)
	}
	return ti
}

// First returns the position of the first such event, or -1.
func (ti *TraceIndex) First(k byte, task, idx, vp string) int {
	p := ti.pos[evKey(k, task, idx, vp)]
	if len(p) == 0 {
		return -1
	}
	return p[0]
}

func (ti *TraceIndex) Count(k byte, task, idx, vp string) int {
	return len(ti.pos[evKey(k, task, idx, vp)])
}

// CalleeInst computes the instance a reference made by caller at the given site denotes.
func CalleeInst(caller Inst, site string, r Ref) Inst {
	if r.VP != "" {
		return Inst{r.Task, r.VP}
	}
	return Inst{r.Task, caller.VP + ">" + caller.Task + "." + site}
}

// Status of an instance as far as a trace prefix shows.
type Status int

const (
	StOK          Status = iota // every entry (and every registered defer) finished, none failed un-ignored
	StNotFinished               // some expected entry has not finished (or never started)
	StFailed                    // a non-ignored failure was observed
)

// Completed evaluates, on the trace prefix [0,pos), whether instance in finished successfully:
// deps first, then every cmds entry in order (loops expanded), task calls recursively.
func (pg *Prog) Completed(ti *TraceIndex, in Inst, pos int, depth int) Status {
	t := pg.Task(in.Task)
	if t == nil || depth > 12 {
		return StNotFinished
	}
	// deps run concurrently: the group has failed as soon as one of them has (the others are
	// cancelled and may never start), otherwise it is finished when all are
	depSt := StOK
	for k, d := range t.Deps {
		switch pg.Completed(ti, CalleeInst(in, fmt.Sprintf("d%d", k), d), pos, depth+1) {
		case StFailed:
			return StFailed
		case StNotFinished:
			depSt = StNotFinished
		}
	}
	if depSt != StOK {
		return depSt
	}
	type pend struct {
		j    int
		item string
	}
	var defers []pend
	res := StOK
	vars := pg.InstVars(in)
loop:
	for j, c := range t.Cmds {
		for _, item := range c.For.Items(vars) {
			if c.Defer {
				defers = append(defers, pend{j, item})
				continue
			}
			if c.Call != nil {
				st := pg.Completed(ti, CalleeInst(in, fmt.Sprintf("c%d%s", j, item), *c.Call), pos, depth+1)
				if st == StFailed && t.IgnoreError {
					continue
				}
				if st != StOK {
					res = st
					break loop
				}
				continue
			}
			idx := fmt.Sprintf("%d%s", j, item)
			p := ti.First('F', in.Task, idx, in.VP)
			if p < 0 || p >= pos {
				res = StNotFinished
				break loop
			}
			if pg.ExitOf(in, j) != 0 && !c.IgnoreError && !t.IgnoreError {
				res = StFailed
				break loop
			}
		}
	}
	// registered defers must have finished as well (their own failures are ignored)
	for _, d := range defers {
		c := t.Cmds[d.j]
		if c.Call != nil {
			st := pg.Completed(ti, CalleeInst(in, fmt.Sprintf("c%d%s", d.j, d.item), *c.Call), pos, depth+1)
			if st == StNotFinished && res == StOK {
				res = StNotFinished
			}
			continue
		}
		idx := fmt.Sprintf("%d%s", d.j, d.item)
		p := ti.First('F', in.Task, idx, in.VP)
		if (p < 0 || p >= pos) && res == StOK {
			res = StNotFinished
		}
	}
	return res
}

// Referrers counts how many reference sites (deps + call cmds) name each task.
func (pg *Prog) Referrers() map[string]int {
	n := map[string]int{}
	for _, t := range pg.Tasks {
		for _, d := range t.Deps {
			n[d.Task]++
		}
		for _, c := range t.Cmds {
			if c.Call != nil {
				n[c.Call.Task]++
			}
		}
	}
	return n
}

// FailureBefore reports whether a non-ignored failing probe finished before pos, outside
// the subtree of the given task names.
func (pg *Prog) FailureBefore(ev []PE, pos int, except map[string]bool) bool {
	for _, e := range ev {
		if e.Pos >= pos {
			break
		}
		if e.K != 'F' || e.Task == "" || except[e.Task] {
			continue
		}
		t := pg.Task(e.Task)
		if t == nil {
			continue
		}
		j, _ := e.CmdIndex()
		if j < len(t.Cmds) && pg.ExitOf(e.Inst(), j) != 0 && !t.Cmds[j].IgnoreError && !t.IgnoreError {
			return true
		}
	}
	return false
}

// Subtree returns the names of all tasks reachable from name (inclusive).
func (pg *Prog) Subtree(name string) map[string]bool {
	out := map[string]bool{}
	var rec func(n string)
	rec = func(n string) {
		if out[n] {
			return
		}
		out[n] = true
		t := pg.Task(n)
		if t == nil {
			return
		}
		for _, d := range t.Deps {
			rec(d.Task)
		}
		for _, c := range t.Cmds {
			if c.Call != nil {
				rec(c.Call.Task)
			}
		}
	}
	rec(name)
	return out
}

func SortedSet(m map[string]bool) []string {
	var out []string
	for k, v := range m {
		if v {
			out = append(out, k)
		}
	}
	sort.Strings(out)
	return out
}

// ParentOf decodes the call path in an instance's VP: the calling instance and the site
// ("d0", "c2", "c2#x") of the reference. ok=false for root calls and for deduplicated
// (shared) instances, whose VP is a constant.
func ParentOf(in Inst) (parent Inst, site string, ok bool) {
	i := strings.LastIndexByte(in.VP, '>')
	if i < 0 {
		return Inst{}, "", false
	}
	seg := in.VP[i+1:]
	d := strings.IndexByte(seg, '.')
	if d < 0 {
		return Inst{}, "", false
	}
	return Inst{seg[:d], in.VP[:i]}, seg[d+1:], true
}

// SiteIndex splits "c2#x" into ('c', 2, "#x").
func SiteIndex(site string) (kind byte, idx int, item string) {
	if site == "" {
		return 0, 0, ""
	}
	kind = site[0]
	rest := site[1:]
	if i := strings.IndexByte(rest, '#'); i >= 0 {
		item = rest[i:]
		rest = rest[:i]
	}
	fmt.Sscanf(rest, "%d", &idx)
	return
}

// InstVars: the variables an instance sees as far as the program model knows them (global,
// call-site, task vars — task vars win).
func (pg *Prog) InstVars(in Inst) map[string]string {
	t := pg.Task(in.Task)
	vars := map[string]string{}
	for _, v := range pg.Vars {
		vars[v[0]] = v[1]
	}
	if par, site, ok := ParentOf(in); ok {
		if pt := pg.Task(par.Task); pt != nil {
			kind, sj, _ := SiteIndex(site)
			var ref *Ref
			if kind == 'd' && sj < len(pt.Deps) {
				ref = &pt.Deps[sj]
			} else if kind == 'c' && sj < len(pt.Cmds) {
				ref = pt.Cmds[sj].Call
			}
			if ref != nil {
				for _, v := range ref.Vars {
					vars[v[0]] = v[1]
				}
				for _, v := range ref.ListVars {
					vars[v[0]] = v[1]
				}
			}
		}
	}
	if t != nil {
		for _, v := range t.Vars {
			vars[v[0]] = v[1]
		}
	}
	return vars
}

func (pg *Prog) taskVars(t *T) map[string]string {
	vars := map[string]string{}
	for _, v := range pg.Vars {
		vars[v[0]] = v[1]
	}
	for _, v := range t.Vars {
		vars[v[0]] = v[1]
	}
	return vars
}

// EntryStatus evaluates one cmds entry (j,item) of instance in on the prefix [0,pos).
func (pg *Prog) EntryStatus(ti *TraceIndex, in Inst, j int, item string, pos int) Status {
	t := pg.Task(in.Task)
	c := t.Cmds[j]
	if c.Call != nil {
		return pg.Completed(ti, CalleeInst(in, fmt.Sprintf("c%d%s", j, item), *c.Call), pos, 1)
	}
	p := ti.First('F', in.Task, fmt.Sprintf("%d%s", j, item), in.VP)
	if p < 0 || p >= pos {
		return StNotFinished
	}
	if pg.ExitOf(in, j) != 0 && !c.IgnoreError && !t.IgnoreError {
		return StFailed
	}
	return StOK
}

// PrevEntries evaluates all regular (non-defer) entries of instance in that precede entry
// (j,item) in expansion order: StOK iff each of them completed successfully (or its failure
// is covered by ignore_error).
func (pg *Prog) PrevEntries(ti *TraceIndex, in Inst, j int, item string, pos int) (Status, string) {
	t := pg.Task(in.Task)
	if t == nil {
		return StOK, ""
	}
	vars := pg.InstVars(in)
	for jj, c := range t.Cmds {
		for _, it := range c.For.Items(vars) {
			if jj == j && it == item {
				return StOK, ""
			}
			if jj > j {
				return StOK, ""
			}
			if c.Defer {
				continue
			}
			st := pg.EntryStatus(ti, in, jj, it, pos)
			if st == StFailed && (t.IgnoreError || (c.IgnoreError && c.Call == nil)) {
				continue
			}
			if st != StOK {
				return st, fmt.Sprintf("%d%s", jj, it)
			}
		}
	}
	return StOK, ""
}

// ExpectedRegular lists the ids ("2", "2#x") of the regular probe entries of t in order.
func (pg *Prog) ExpectedRegular(in Inst) []string {
	var out []string
	t := pg.Task(in.Task)
	vars := pg.InstVars(in)
	for j, c := range t.Cmds {
		if c.Defer || c.Call != nil {
			continue
		}
		for _, it := range c.For.Items(vars) {
			out = append(out, fmt.Sprintf("%d%s", j, it))
		}
	}
	return out
}

// Instances groups probe events by instance, preserving order.
func Instances(ev []PE) (map[Inst][]PE, []Inst) {
	m := map[Inst][]PE{}
	var order []Inst
	for _, e := range ev {
		if e.Task == "" {
			continue
		}
		in := e.Inst()
		if _, ok := m[in]; !ok {
			order = append(order, in)
		}
		m[in] = append(m[in], e)
	}
	return m, order
}

// ExitOf: the exit code of probe entry j of instance in.
func (pg *Prog) ExitOf(in Inst, j int) int {
	t := pg.Task(in.Task)
	if t == nil || j >= len(t.Cmds) {
		return 0
	}
	c := t.Cmds[j]
	if c.ExitVar != "" {
		n := 0
		fmt.Sscanf(pg.InstVars(in)[c.ExitVar], "%d", &n)
		return n
	}
	return c.Exit
}
