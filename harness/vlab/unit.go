package vlab

import (
	"encoding/json"
	"fmt"
	"hash/fnv"
	"os"
	"path/filepath"
	"sort"
	"time"

	"github.com/go-task/task/v3/zverif/vsched"
)

// Unit is one independently explorable piece of a property check (one scenario x bound).
type Unit struct {
	Name      string
	Sc        *Scenario
	Bound     int
	Prune     bool
	Weight    int // rough relative cost, for ordering
	MaxExecs  int
	NoConfirm bool
	NoFree    bool // no free-running validation (the body may block forever by design)
	// AllVisible: every hooked operation is a scheduling point (no ownership / read-shared
	// reduction); affordable for short bodies such as Setup
	AllVisible bool
	Shards     int // >1: the DFS tree is split at its first level over this many worker processes
	Env        bool
	Check      func(x *Exec) []Violation
	Goal       func(x *Exec) []string
	// Required goals must each be witnessed by at least one explored execution (exists-style
	// clauses; decided by vcheck over all shards of the unit, only when exploration was exhaustive)
	Required []string
	ReqProp  string
	ReqMsg   string
	// Filter post-processes the violations found (e.g. keeps only minimal deviation sets)
	Filter func(vs []Violation) []Violation
	// Post runs after exploration (exists-style clauses, outcome-set comparisons).
	Post func(e *Explorer) []Violation
	// Custom replaces the schedule explorer altogether (sequential / enumerative units).
	Custom func(u *Unit, dir string, deadline time.Time) *UnitResult
}

// UnitResult is what a worker process reports for one unit.
type UnitResult struct {
	Unit       string         `json:"unit"`
	Stats      Stats          `json:"stats"`
	Violations []Violation    `json:"violations"`
	SigCounts  map[string]int `json:"sig_counts"`
	Goals      []string       `json:"goals"`
	Required   []string       `json:"required_goals,omitempty"`
	ReqProp    string         `json:"req_prop,omitempty"`
	ReqMsg     string         `json:"req_msg,omitempty"`
	HarnessErr string         `json:"harness_error,omitempty"`
	Outcomes   []string       `json:"outcomes,omitempty"`
	Extra      map[string]any `json:"extra,omitempty"`
}

// RunUnit explores one unit and returns its result.
func RunUnit(u *Unit, shard, nshards int, deadline time.Time, boundOverride int) *UnitResult {
	tmp, err := os.MkdirTemp(os.Getenv("VERIF_WORK"), "u-")
	if err != nil {
		return &UnitResult{Unit: u.Name, HarnessErr: err.Error()}
	}
	defer os.RemoveAll(tmp)
	// a fixed leaf name: scenarios may print the base name of the project directory
	dir := filepath.Join(tmp, "proj")
	os.MkdirAll(dir, 0o755)
	if u.Custom != nil {
		t0 := time.Now()
		r := u.Custom(u, dir, deadline)
		r.Unit = u.Name
		if r.Stats.WallS == 0 {
			r.Stats.WallS = time.Since(t0).Seconds()
		}
		return r
	}
	if err := u.Sc.Materialise(dir); err != nil {
		return &UnitResult{Unit: u.Name, HarnessErr: err.Error()}
	}
	if u.MaxExecs > 0 {
		defer func() {}()
	}
	bound := u.Bound
	if boundOverride != -2 {
		bound = boundOverride
	}
	e := &Explorer{Name: u.Name, Bound: bound, Prune: u.Prune && !u.Sc.UsesFS && os.Getenv("VERIF_NOPRUNE") == "", Shard: shard, NShards: nshards,
		Deadline: deadline, Run: u.Sc.Runner(dir), Check: u.Check, Goal: u.Goal, EnvChoices: u.Env, NoConfirm: u.NoConfirm, AllVisible: u.AllVisible}
	// W cache: the shared-object sets discovered by earlier runs of this unit (stable ids). Starting
	// with them only makes more operations visible from the first execution on (a superset of
	// scheduling points, so nothing explorable is lost) and saves the discovery restarts.
	wfile := ""
	if d := os.Getenv("VERIF_WCACHE"); d != "" && !u.AllVisible {
		h := fnv.New64a()
		h.Write([]byte(u.Name))
		// one file per shard (shards run concurrently); every shard starts from the union
		wfile = filepath.Join(d, fmt.Sprintf("%016x-%d.json", h.Sum64(), shard))
		files, _ := filepath.Glob(filepath.Join(d, fmt.Sprintf("%016x-*.json", h.Sum64())))
		sort.Strings(files)
		var union []uint64
		for _, f := range files {
			if b, err := os.ReadFile(f); err == nil {
				var c struct {
					Unit string   `json:"unit"`
					W    []uint64 `json:"w"`
				}
				if json.Unmarshal(b, &c) == nil && c.Unit == u.Name {
					union = append(union, c.W...)
				}
			}
		}
		sort.Slice(union, func(i, j int) bool { return union[i] < union[j] })
		e.SetW(union)
	}
	e.Explore()
	if wfile != "" && os.Getenv("VERIF_WCACHE_RO") == "" && e.HarnessErr == "" && len(e.Violations) == 0 {
		if w := e.W(); len(w) > 0 {
			sort.Slice(w, func(i, j int) bool { return w[i] < w[j] })
			b, _ := json.Marshal(map[string]any{"unit": u.Name, "w": w})
			if old, err := os.ReadFile(wfile); err != nil || string(old) != string(b) {
				os.WriteFile(wfile, b, 0o644)
			}
		}
	}
	if e.HarnessErr == "" && e.Stats.Execs > 0 && e.Stats.Outcomes == 0 && (nshards <= 1 || shard == 0) {
		// every execution was abandoned before it could be judged (e.g. pruned against its own
		// earlier state): the silence of such a unit would mean nothing
		e.HarnessErr = fmt.Sprintf("vacuous exploration: %d executions, none observed (pruned %d)", e.Stats.Execs, e.Stats.Pruned)
	}
	// Conformance validation (sampling, decides nothing by its silence): the same body with real
	// goroutines and real primitives; every free-running trace must satisfy the same oracles. A
	// violation seen only here would mean the controlled world does not over-approximate the
	// real one within the explored bound.
	freeRuns, freeViol := 0, 0
	// (skipped once the exploration has found a violation: the code is already known to be
	// broken, and a free-running execution of a deadlocking change would never return)
	if n := freeRunCount(); n > 0 && u.Check != nil && !u.Env && !u.NoFree && e.HarnessErr == "" && len(e.Violations) == 0 {
		for i := 0; i < n; i++ {
			xc := make(chan *Exec, 1)
			go func() { xc <- FreeRun(u.Sc, dir) }()
			var x *Exec
			select {
			case x = <-xc:
			case <-time.After(180 * time.Second):
				e.HarnessErr = "a free-running execution did not finish within 180s although the bounded exploration found no deadlock"
			}
			if x == nil {
				break
			}
			freeRuns++
			for _, v := range u.Check(x) {
				if e.sigSeen[v.Sig] > 0 {
					continue
				}
				v.Clause += ":free_run"
				v.Scenario = u.Name
				v.Trace = traceLines(x)
				v.Detail = "observed in a free-running execution (real goroutines), not in the bounded exploration: " + v.Detail
				e.Violations = append(e.Violations, v)
				e.sigSeen[v.Sig]++
				freeViol++
			}
		}
	}
	if u.Filter != nil {
		e.Violations = u.Filter(e.Violations)
	}
	res := &UnitResult{Unit: u.Name, Stats: e.Stats, Violations: e.Violations, SigCounts: e.SigCounts(), HarnessErr: e.HarnessErr}
	if freeRuns > 0 {
		res.Extra = map[string]any{"free_running_validation_runs": freeRuns, "free_running_only_violations": freeViol}
	}
	for g := range e.Goals {
		res.Goals = append(res.Goals, g)
	}
	res.Required, res.ReqProp, res.ReqMsg = u.Required, u.ReqProp, u.ReqMsg
	if u.Post != nil && e.HarnessErr == "" && e.Stats.Exhaustive {
		for _, v := range u.Post(e) {
			v.Scenario = u.Name
			res.Violations = append(res.Violations, v)
			res.SigCounts[v.Sig]++
		}
	}
	return res
}

func WriteJSON(path string, v any) error {
	b, err := json.MarshalIndent(v, "", " ")
	if err != nil {
		return err
	}
	return os.WriteFile(path, b, 0o644)
}

func V(prop, clause, tags, detail string) Violation {
	sig := prop + ":" + clause
	if tags != "" {
		sig += ":" + tags
	}
	return Violation{Property: prop, Clause: clause, Sig: sig, Detail: detail}
}

func Sprintf(f string, a ...any) string { return fmt.Sprintf(f, a...) }

// ReplayUnit re-executes one recorded choice vector twice, asserts identical observations
// and prints the trace and the violations found.
func ReplayUnit(u *Unit, vec string) int {
	var prefix []int
	var w []uint64
	if len(vec) > 0 && vec[0] == '@' {
		b, err := os.ReadFile(vec[1:])
		if err != nil {
			fmt.Fprintln(os.Stderr, err)
			return 2
		}
		var r struct {
			Violation Violation `json:"violation"`
		}
		if err := json.Unmarshal(b, &r); err != nil {
			fmt.Fprintln(os.Stderr, err)
			return 2
		}
		prefix, w = r.Violation.Choices, r.Violation.W
		if u.Custom != nil {
			fmt.Printf("recorded violation %s\n  %s\n", r.Violation.Sig, r.Violation.Detail)
			res := RunUnit(u, 0, 1, time.Time{}, -2)
			for _, v := range res.Violations {
				if v.Sig == r.Violation.Sig {
					fmt.Printf("VIOLATION-IN-REPLAY %s: %s\n", v.Sig, v.Detail)
					return 1
				}
			}
			fmt.Println("not reproduced")
			return 0
		}
	} else if vec != "-" {
		for _, f := range splitComma(vec) {
			n := 0
			fmt.Sscanf(f, "%d", &n)
			prefix = append(prefix, n)
		}
	}
	dir, err := os.MkdirTemp(os.Getenv("VERIF_WORK"), "r-")
	if err != nil {
		fmt.Fprintln(os.Stderr, err)
		return 2
	}
	defer os.RemoveAll(dir)
	if err := u.Sc.Materialise(dir); err != nil {
		fmt.Fprintln(os.Stderr, err)
		return 2
	}
	run := u.Sc.Runner(dir)
	var first string
	rc := 0
	for i := 0; i < 2; i++ {
		cfg := vschedCfg(prefix, u.Env)
		cfg.W = w
		x := run(cfg)
		if x.Res.Diverged != "" {
			fmt.Println("DIVERGED:", x.Res.Diverged)
			return 2
		}
		oc := x.Outcome()
		if i == 0 {
			first = oc
			for _, l := range traceLines(x) {
				fmt.Println(l)
			}
			hist := map[string]int{}
			for _, p := range x.Res.Points {
				hist[p.Label]++
			}
			fmt.Println("points:", len(x.Res.Points), "steps:", x.Res.Steps, hist)
			for i, p := range x.Res.Points {
				fmt.Printf("  point %d: %s n=%d choice=%d tid=%d curEnabled=%v\n", i, p.Label, p.N, p.Choice, p.Tid, p.CurEnabled)
			}
			if u.Check != nil {
				for _, v := range u.Check(x) {
					fmt.Printf("VIOLATION-IN-REPLAY %s: %s\n", v.Sig, v.Detail)
					rc = 1
				}
			}
		} else if oc != first {
			fmt.Println("NONDETERMINISTIC REPLAY")
			return 2
		}
	}
	return rc
}

func splitComma(s string) []string {
	var out []string
	cur := ""
	for _, r := range s {
		if r == ',' {
			out = append(out, cur)
			cur = ""
		} else {
			cur += string(r)
		}
	}
	if cur != "" {
		out = append(out, cur)
	}
	return out
}

func freeRunCount() int {
	n := 0
	fmt.Sscanf(os.Getenv("VERIF_FREE_RUNS"), "%d", &n)
	return n
}

// FreeRun executes the scenario body once outside the scheduler (shims delegate to the real
// primitives, goroutines are real).
func FreeRun(sc *Scenario, dir string) *Exec {
	if sc.UsesFS {
		sc.ResetFS(dir)
	}
	x := &Exec{Aux: map[string]string{}, Res: &vsched.Result{}}
	probe := &Probe{}
	raw := &RawWriter{}
	if sc.BodyFn != nil {
		sc.BodyFn(dir, x, raw)
	} else {
		sc.Body(dir, x, probe, raw)()
	}
	x.Trace = probe.Trace
	if sc.Raw || sc.BodyFn != nil {
		for _, w := range raw.Writes {
			x.Trace = append(x.Trace, Event{'W', w, 0})
		}
	}
	x.Code = ExitCode(x.Err, sc.Opts.ExitCodeFlag)
	if x.Err != nil {
		x.ErrStr = x.Err.Error()
	}
	if sc.AfterRun != nil {
		sc.AfterRun(dir, x)
	}
	return x
}
