package props

import (
	"context"
	"fmt"
	"io"
	"os"
	"path/filepath"
	"sort"
	"strings"
	"time"

	task "github.com/go-task/task/v3"
	terrors "github.com/go-task/task/v3/errors"
	"github.com/go-task/task/v3/taskfile/ast"
	"github.com/go-task/task/v3/zverif/vlab"
)

func init() { registry["C15"] = c15Units }

var c15Alphabet = []string{"a", "b", "ab", "a:b", "a-b", "a.b", "a*", "*", "*:*", "a(b", "a[b", "a+", "a$", "^a", "a|b", `a\b`, "a b", "a-*-*", "a?", "a*a", "ab*b"}

// refMatch: only '*' is special; greedy, leftmost (each '*' takes as much as it can while the
// rest still matches). Returns the matched substrings.
func refMatch(pattern, name string) (bool, []string) {
	if !strings.Contains(pattern, "*") {
		return pattern == name, nil
	}
	i := strings.IndexByte(pattern, '*')
	lit := pattern[:i]
	if !strings.HasPrefix(name, lit) {
		return false, nil
	}
	rest := pattern[i+1:]
	tail := name[len(lit):]
	for k := len(tail); k >= 0; k-- { // greedy
		if rest == "" {
			if k == len(tail) {
				return true, []string{tail}
			}
			continue
		}
		if ok, ms := refMatchRest(rest, tail[k:]); ok {
			return true, append([]string{tail[:k]}, ms...)
		}
	}
	return false, nil
}

func refMatchRest(pattern, name string) (bool, []string) {
	if !strings.Contains(pattern, "*") {
		return pattern == name, nil
	}
	return refMatch(pattern, name)
}

type c15Task struct {
	name    string
	aliases []string
	file    string // "" root, "inc" included (namespace inc)
}

type c15Expect struct {
	code  int    // 0 run, 200 not found, 203 ambiguous alias
	task  string // full name of the task that must run
	match []string
}

func c15Reference(tasks []c15Task, req string) c15Expect {
	full := func(t c15Task) string {
		if t.file != "" {
			return t.file + ":" + t.name
		}
		return t.name
	}
	for _, t := range tasks {
		if full(t) == req {
			return c15Expect{task: full(t)}
		}
	}
	// wildcard: Taskfile order, parent file first
	ordered := append([]c15Task{}, tasks...)
	sort.SliceStable(ordered, func(i, j int) bool { return ordered[i].file == "" && ordered[j].file != "" })
	for _, t := range ordered {
		if !strings.Contains(full(t), "*") {
			continue
		}
		if ok, ms := refMatch(full(t), req); ok {
			return c15Expect{task: full(t), match: ms}
		}
	}
	var hits []string
	for _, t := range tasks {
		for _, a := range t.aliases {
			al := a
			if t.file != "" {
				al = t.file + ":" + a
			}
			if al == req {
				if len(hits) == 0 || hits[len(hits)-1] != full(t) { // the same task listing an alias twice is still one task
					hits = append(hits, full(t))
				}
			}
		}
	}
	if len(hits) == 1 {
		return c15Expect{task: hits[0]}
	}
	if len(hits) > 1 {
		return c15Expect{code: 203}
	}
	return c15Expect{code: 200}
}

func c15Files(tasks []c15Task) map[string]string {
	render := func(ts []c15Task, ns string) string {
		s := "version: '3'\n"
		if ns == "" {
			for _, t := range tasks {
				if t.file != "" {
					s += "includes:\n  inc: ./inc.yml\n"
					break
				}
			}
		}
		s += "tasks:\n"
		n := 0
		for _, t := range ts {
			if t.file != ns {
				continue
			}
			n++
			fulln := t.name
			if ns != "" {
				fulln = ns + ":" + t.name
			}
			s += "  " + vlabQ(t.name) + ":\n"
			if len(t.aliases) > 0 {
				var as []string
				for _, a := range t.aliases {
					as = append(as, vlabQ(a))
				}
				s += "    aliases: [" + strings.Join(as, ", ") + "]\n"
			}
			s += "    cmds:\n      - " + vlabQ("printf '%s\\n' "+shQ("RAN~~"+fulln+"~~{{range .MATCH}}[{{.}}]{{end}}")) + "\n"
		}
		if n == 0 {
			s += "  zz-placeholder:\n    cmds: ['true']\n"
		}
		return s
	}
	files := map[string]string{"Taskfile.yml": render(tasks, "")}
	for _, t := range tasks {
		if t.file != "" {
			files["inc.yml"] = render(tasks, "inc")
			break
		}
	}
	return files
}

func vlabQ(s string) string { return "'" + strings.ReplaceAll(s, "'", "''") + "'" }
func shQ(s string) string   { return "'" + strings.ReplaceAll(s, "'", `'\''`) + "'" }

type captureW struct{ b strings.Builder }

func (c *captureW) Write(p []byte) (int, error) { c.b.Write(p); return len(p), nil }

// runResolve loads the Taskfile set and requests one name in-process; panics are caught.
func runResolve(dir string, req string) (out string, err error, panicked string) {
	defer func() {
		if r := recover(); r != nil {
			panicked = fmt.Sprint(r)
		}
	}()
	w := &captureW{}
	e := task.NewExecutor(task.WithDir(dir), task.WithStdout(w), task.WithStderr(io.Discard), task.WithSilent(true), task.WithVersionCheck(true))
	if err := e.Setup(); err != nil {
		return "", err, ""
	}
	err = e.Run(context.Background(), &task.Call{Task: req, Vars: ast.NewVars()})
	return w.b.String(), err, ""
}

func editDistance1(a, b string) bool {
	if a == b {
		return false
	}
	la, lb := len(a), len(b)
	if la == lb {
		d := 0
		for i := range a {
			if a[i] != b[i] {
				d++
			}
		}
		return d == 1
	}
	if la+1 == lb {
		a, b = b, a
		la, lb = lb, la
	}
	if la == lb+1 {
		for i := 0; i < la; i++ {
			if a[:i]+a[i+1:] == b {
				return true
			}
		}
	}
	return false
}

func c15Unit(first string, tier string) *Unit {
	name := "resolve/first=" + first
	return &Unit{Name: name, Weight: 3, Custom: func(u *Unit, dir string, deadline time.Time) *vlab.UnitResult {
		res := &vlab.UnitResult{SigCounts: map[string]int{}, Extra: map[string]any{}}
		n := 0
		outcomes := map[string]bool{}
		var samples []any
		add := func(v vlab.Violation, tasks []c15Task, req string) {
			v.Scenario = name
			v.Input = map[string]any{"files": c15Files(tasks), "request": req}
			res.SigCounts[v.Sig]++
			if res.SigCounts[v.Sig] == 1 {
				res.Violations = append(res.Violations, v)
			}
		}
		var sets [][]c15Task
		sets = append(sets, []c15Task{{name: first}})
		for _, second := range c15Alphabet {
			if second == first {
				continue
			}
			sets = append(sets,
				[]c15Task{{name: first}, {name: second}},
				[]c15Task{{name: second}, {name: first}},
				[]c15Task{{name: first, aliases: []string{second}}},
				[]c15Task{{name: first}, {name: second, file: "inc"}},
				[]c15Task{{name: first, file: "inc"}, {name: second}},
			)
		}
		// alias layouts: shared alias (ambiguous), alias equal to another task's name, alias matched by a wildcard
		sets = append(sets,
			[]c15Task{{name: first, aliases: []string{"al"}}, {name: "other", aliases: []string{"al"}}},
			[]c15Task{{name: first, aliases: []string{"other"}}, {name: "other"}},
			[]c15Task{{name: first, aliases: []string{"dup", "x2", "dup"}}, {name: "zz"}},
			[]c15Task{{name: first, file: "inc", aliases: []string{"dup", "dup"}}},
			[]c15Task{{name: first, aliases: []string{"w-x"}}, {name: "w-*"}},
			[]c15Task{{name: "w-*"}, {name: first, aliases: []string{"w-x"}}},
		)
		if tier == "thorough" {
			simple := []string{"a", "b", "ab", "a:b", "a-b", "a.b", "a*", "*"}
			for _, s2 := range simple {
				for _, s3 := range simple {
					if s2 != first && s3 != first && s2 < s3 {
						sets = append(sets, []c15Task{{name: first}, {name: s2}, {name: s3}})
					}
				}
			}
		}
		for _, tasks := range sets {
			if !deadline.IsZero() && time.Now().After(deadline) {
				res.Stats.Exhaustive = false
				break
			}
			os.RemoveAll(dir)
			os.MkdirAll(dir, 0o755)
			for rel, c := range c15Files(tasks) {
				os.WriteFile(filepath.Join(dir, rel), []byte(c), 0o644)
			}
			reqs := append([]string{}, c15Alphabet...)
			reqs = append(reqs, "dup", "inc:dup", "axb", "a-x", "a-b-c-d", "ax", "xa", "inc:a", "inc:axb", "al", "other", "w-x", "zzz", "a:b:c", "", "A")
			for _, t := range tasks {
				if len(t.name) > 1 {
					reqs = append(reqs, t.name[:len(t.name)-1], t.name+"x")
				}
			}
			// a leading ':' marks the root Taskfile's namespace: from the command line ':x' is 'x',
			// whether x resolves exactly, through a wildcard or through an alias
			for _, r := range []string{"dup", "inc:dup", "axb", "a-x", "al", "other", "w-x", "inc:a", "zzz"} {
				reqs = append(reqs, ":"+r)
			}
			for _, t := range tasks {
				if t.file == "" && !strings.HasPrefix(t.name, ":") {
					reqs = append(reqs, ":"+t.name)
				}
			}
			for _, req := range reqs {
				exp := c15Reference(tasks, strings.TrimPrefix(req, ":"))
				out, err, pan := runResolve(dir, req)
				n++
				tag := metaTag(tasks, req)
				if pan != "" {
					add(vlab.V("C15", "panic", tag, fmt.Sprintf("requesting %q with tasks %v panicked: %s", req, taskNames(tasks), firstN(pan, 160))), tasks, req)
					continue
				}
				code := vlab.ExitCode(err, false)
				ran := ""
				match := ""
				if strings.HasPrefix(out, "RAN~~") {
					p := strings.SplitN(strings.TrimRight(out, "\n"), "~~", 3)
					if len(p) == 3 {
						ran, match = p[1], p[2]
					}
				}
				outcomes[fmt.Sprintf("%d/%v/%v", code, ran != "", match != "")] = true
				if len(samples) < 3 && ran != "" && match != "" {
					samples = append(samples, map[string]any{"tasks": taskNames(tasks), "request": req, "ran": ran, "MATCH": match})
				}
				wantMatch := ""
				for _, m := range exp.match {
					wantMatch += "[" + m + "]"
				}
				switch {
				case exp.code == 0 && (code != 0 || ran != exp.task):
					add(vlab.V("C15", "wrong_task", tag, fmt.Sprintf("tasks %v, request %q: expected task %q to run, got ran=%q status=%d (%v)", taskNames(tasks), req, exp.task, ran, code, err)), tasks, req)
				case exp.code == 0 && match != wantMatch:
					add(vlab.V("C15", "wrong_match_var", tag, fmt.Sprintf("tasks %v, request %q: MATCH is %q, expected %q", taskNames(tasks), req, match, wantMatch)), tasks, req)
				case exp.code != 0 && ran != "":
					add(vlab.V("C15", "ran_instead_of_error", tag+fmt.Sprintf(":want%d", exp.code), fmt.Sprintf("tasks %v, request %q: task %q ran, expected error %d", taskNames(tasks), req, ran, exp.code)), tasks, req)
				case exp.code != 0 && code != exp.code:
					add(vlab.V("C15", "wrong_error", tag+fmt.Sprintf(":got%d:want%d", code, exp.code), fmt.Sprintf("tasks %v, request %q: status %d (%v), expected %d", taskNames(tasks), req, code, err, exp.code)), tasks, req)
				case exp.code == 200:
					// suggestion: a unique existing name at edit distance 1 must be suggested
					var near []string
					for _, t := range tasks {
						fn := t.name
						if t.file != "" {
							fn = t.file + ":" + t.name
						}
						if editDistance1(fn, req) {
							near = append(near, fn)
						}
					}
					if nf, ok := err.(*terrors.TaskNotFoundError); ok && len(near) == 1 && isPlain(near[0]) && isPlain(req) && len(req) >= 3 {
						if nf.DidYouMean == "" {
							add(vlab.V("C15", "no_suggestion", "", fmt.Sprintf("tasks %v, request %q: error 200 without a suggestion although %q is one edit away", taskNames(tasks), req, near[0])), tasks, req)
						}
					}
				}
			}
		}
		res.Extra["samples"] = samples
		res.Stats.Scenario, res.Stats.Execs, res.Stats.States, res.Stats.Transitions, res.Stats.Outcomes = name, n, n, n, len(outcomes)
		res.Stats.Exhaustive = true
		return res
	}}
}

func isPlain(s string) bool {
	for _, r := range s {
		if !(r >= 'a' && r <= 'z') && r != '-' && r != ':' {
			return false
		}
	}
	return true
}

func taskNames(ts []c15Task) []string {
	var out []string
	for _, t := range ts {
		n := t.name
		if t.file != "" {
			n = t.file + ":" + n
		}
		if len(t.aliases) > 0 {
			n += fmt.Sprintf("(aliases %v)", t.aliases)
		}
		out = append(out, n)
	}
	return out
}

// metaTag: which kind of special character is involved (for signatures)
func metaTag(ts []c15Task, req string) string {
	all := req
	for _, t := range ts {
		all += t.name
	}
	switch {
	case strings.ContainsAny(all, "([\\"):
		return "regex_syntax_char"
	case strings.ContainsAny(all, ".+$^|?"):
		return "regex_meta_char"
	case strings.Contains(all, "*"):
		return "wildcard"
	}
	return "plain"
}

func c15Units(tier string) []*Unit {
	var us []*Unit
	for _, f := range c15Alphabet {
		us = append(us, c15Unit(f, tier))
	}
	us = append(us, c15IncludeAliasUnit(), c15CommandLineUnit())
	// suggestion on longer plain names
	us = append(us, &Unit{Name: "suggestions", Weight: 1, Custom: func(u *Unit, dir string, deadline time.Time) *vlab.UnitResult {
		res := &vlab.UnitResult{SigCounts: map[string]int{}, Extra: map[string]any{}}
		names := []string{"build", "deploy", "test-all", "lint:go", "Release", "makeDocs"}
		tasks := []c15Task{}
		for _, n := range names {
			tasks = append(tasks, c15Task{name: n})
		}
		os.MkdirAll(dir, 0o755)
		for rel, c := range c15Files(tasks) {
			os.WriteFile(filepath.Join(dir, rel), []byte(c), 0o644)
		}
		n := 0
		var samples []any
		for _, nm := range names {
			for i := 0; i < len(nm); i++ {
				req := nm[:i] + nm[i+1:] // one deletion
				if c15Reference(tasks, req).code != 200 {
					continue
				}
				_, err, pan := runResolve(dir, req)
				n++
				nf, ok := err.(*terrors.TaskNotFoundError)
				if pan != "" || !ok {
					v := vlab.V("C15", "wrong_error", "suggestions", fmt.Sprintf("request %q: expected error 200, got %v %s", req, err, pan))
					res.SigCounts[v.Sig]++
					if res.SigCounts[v.Sig] == 1 {
						res.Violations = append(res.Violations, v)
					}
					continue
				}
				if len(samples) < 2 {
					samples = append(samples, map[string]any{"request": req, "did_you_mean": nf.DidYouMean})
				}
				if nf.DidYouMean != nm {
					v := vlab.V("C15", "no_suggestion", "", fmt.Sprintf("tasks %v, request %q: suggestion %q, expected %q", names, req, nf.DidYouMean, nm))
					v.Scenario = "suggestions"
					v.Input = map[string]any{"files": c15Files(tasks), "request": req}
					res.SigCounts[v.Sig]++
					if res.SigCounts[v.Sig] == 1 {
						res.Violations = append(res.Violations, v)
					}
				}
			}
		}
		res.Extra["samples"] = samples
		res.Stats = vlab.Stats{Scenario: "suggestions", Execs: n, States: n, Transitions: n, Outcomes: 2, Exhaustive: true}
		return res
	}})
	return us
}

// Aliases across includes: an include's own aliases stand for its whole namespace at any depth;
// a task's aliases are namespaced per merged copy when one Taskfile is included twice.
func c15IncludeAliasUnit() *Unit {
	name := "resolve/include-aliases"
	return &Unit{Name: name, Weight: 1, Custom: func(u *Unit, dir string, deadline time.Time) *vlab.UnitResult {
		res := &vlab.UnitResult{SigCounts: map[string]int{}, Extra: map[string]any{}}
		ran := func(full string) string {
			return "    cmds:\n      - " + vlabQ("printf '%s\\n' "+shQ("RAN~~"+full+"~~")) + "\n"
		}
		type rq struct {
			req  string
			task string // "" = error expected
			code int
		}
		type tc struct {
			label string
			files map[string]string
			reqs  []rq
		}
		cases := []tc{
			{"include-alias-over-nested-include", map[string]string{
				"Taskfile.yml": "version: '3'\nincludes:\n  a:\n    taskfile: ./a.yml\n    aliases: [x]\n",
				"a.yml":        "version: '3'\nincludes:\n  b: ./b.yml\ntasks:\n  t:\n" + ran("a:t") + "  only-a:\n" + ran("a:only-a"),
				"b.yml":        "version: '3'\ntasks:\n  t:\n" + ran("a:b:t") + "  u:\n    aliases: [uu]\n" + ran("a:b:u"),
			}, []rq{{"a:t", "a:t", 0}, {"x:t", "a:t", 0}, {"a:b:t", "a:b:t", 0}, {"x:b:t", "a:b:t", 0}, {"x:b:u", "a:b:u", 0}, {"a:b:uu", "a:b:u", 0}, {"x:only-a", "a:only-a", 0}, {"x:u", "", 200}, {"b:t", "", 200}}},
			{"same-file-twice-task-aliases", map[string]string{
				"Taskfile.yml": "version: '3'\nincludes:\n  one: ./s.yml\n  two: ./s.yml\n",
				"s.yml":        "version: '3'\ntasks:\n  build:\n    aliases: [b, bb]\n" + ran("{{.TASK}}"),
			}, []rq{{"one:build", "one:build", 0}, {"two:build", "two:build", 0}, {"one:b", "one:build", 0}, {"two:b", "two:build", 0}, {"one:bb", "one:build", 0}, {"two:bb", "two:build", 0}, {"b", "", 200}, {"two:one:b", "", 200}}},
			{"same-file-under-two-parents-task-aliases", map[string]string{
				"Taskfile.yml": "version: '3'\nincludes:\n  l: ./l.yml\n  r: ./r.yml\n",
				"l.yml":        "version: '3'\nincludes:\n  s: ./s.yml\n",
				"r.yml":        "version: '3'\nincludes:\n  s: ./s.yml\n",
				"s.yml":        "version: '3'\ntasks:\n  build:\n    aliases: [b]\n" + ran("{{.TASK}}"),
			}, []rq{{"l:s:b", "l:s:build", 0}, {"r:s:b", "r:s:build", 0}, {"l:s:build", "l:s:build", 0}, {"r:s:build", "r:s:build", 0}}},
		}
		n := 0
		var samples []any
		for _, c := range cases {
			os.RemoveAll(dir)
			os.MkdirAll(dir, 0o755)
			for rel, content := range c.files {
				os.WriteFile(filepath.Join(dir, rel), []byte(content), 0o644)
			}
			for _, r := range c.reqs {
				out, err, pan := runResolve(dir, r.req)
				n++
				code := vlab.ExitCode(err, false)
				got := ""
				if strings.HasPrefix(out, "RAN~~") {
					got = strings.SplitN(strings.TrimRight(out, "\n"), "~~", 3)[1]
				}
				if len(samples) < 3 {
					samples = append(samples, map[string]any{"case": c.label, "request": r.req, "ran": got, "status": code})
				}
				bad := ""
				switch {
				case pan != "":
					bad = "panic " + firstN(pan, 100)
				case r.task != "" && (code != 0 || got != r.task):
					bad = fmt.Sprintf("ran %q with status %d (%v), expected task %q", got, code, err, r.task)
				case r.task == "" && (code != r.code || got != ""):
					bad = fmt.Sprintf("ran %q with status %d, expected error %d and nothing run", got, code, r.code)
				}
				if bad != "" {
					clause := "wrong_task"
					if r.task == "" || code != 0 {
						clause = "wrong_error"
					}
					v := vlab.V("C15", clause, "include_aliases:"+c.label, fmt.Sprintf("%s, request %q: %s", c.label, r.req, bad))
					v.Scenario = name
					v.Input = map[string]any{"files": c.files, "request": r.req}
					res.SigCounts[v.Sig]++
					if res.SigCounts[v.Sig] == 1 {
						res.Violations = append(res.Violations, v)
					}
				}
			}
		}
		res.Extra["samples"] = samples
		res.Stats = vlab.Stats{Scenario: name, Execs: n, States: n, Transitions: n, Outcomes: 2, Exhaustive: true}
		return res
	}}
}

// The command line as the user types it (the binary, not Executor.Run): requested names that
// are empty or unknown, alone, after a valid name, and together with the modes that only
// describe tasks (--summary, --dry, --status): error 200 (203 for an ambiguous alias), no command
// runs, for every combination.
func c15CommandLineUnit() *Unit {
	name := "cli/empty-and-unknown-names-with-describing-modes"
	return &Unit{Name: name, Weight: 1, Custom: func(u *Unit, dir string, deadline time.Time) *vlab.UnitResult {
		res := &vlab.UnitResult{SigCounts: map[string]int{}, Extra: map[string]any{}}
		tf := "version: '3'\ntasks:\n  default:\n    cmds:\n      - echo ran-default >> ran.log\n  build:\n    desc: builds\n    summary: builds things\n    cmds:\n      - echo ran-build >> ran.log\n" +
			"  one:\n    aliases: [amb]\n    cmds:\n      - echo ran-one >> ran.log\n  two:\n    aliases: [amb]\n    cmds:\n      - echo ran-two >> ran.log\n"
		n := 0
		var samples []any
		for _, mode := range [][]string{nil, {"--summary"}, {"--dry"}, {"--status"}, {"--silent"}, {"--parallel"}} {
			for _, c := range []struct {
				names []string
				code  int
			}{
				{[]string{""}, 200}, {[]string{"build", ""}, 200}, {[]string{"", "build"}, 200}, {[]string{"nope"}, 200}, {[]string{"build", "nope"}, 200},
				{[]string{"amb"}, 203}, {[]string{"build", "amb"}, 203}, {[]string{" "}, 200},
			} {
				os.RemoveAll(dir)
				os.MkdirAll(dir, 0o755)
				os.WriteFile(filepath.Join(dir, "Taskfile.yml"), []byte(tf), 0o644)
				args := append(append([]string{}, mode...), c.names...)
				so, se, rc := RunCLI(dir, nil, "", args...)
				n++
				ran, _ := os.ReadFile(filepath.Join(dir, "ran.log"))
				if len(samples) < 2 {
					samples = append(samples, map[string]any{"args": args, "status": rc, "stderr": firstN(se, 80)})
				}
				bad, clause := "", ""
				switch {
				case len(ran) > 0:
					clause, bad = "ran_despite_bad_name", fmt.Sprintf("commands ran (%q)", strings.TrimSpace(string(ran)))
				case rc == 1 && len(mode) == 1 && mode[0] == "--status" && c.names[0] == "build":
					// (--status reports the first task that is not up to date, here the valid first name)
				case rc != c.code:
					clause, bad = "wrong_status", fmt.Sprintf("status %d, expected %d (stdout %q stderr %q)", rc, c.code, firstN(so, 60), firstN(se, 100))
				}
				if bad != "" {
					kind := "unknown"
					switch {
					case c.code == 203:
						kind = "ambiguous"
					case strings.TrimSpace(c.names[len(c.names)-1]) == "" || c.names[0] == "":
						kind = "empty"
					}
					v := vlab.V("C15", clause, "cli:"+kind+":"+strings.TrimLeft(strings.Join(mode, ""), "-"), fmt.Sprintf("task %q: %s", args, bad))
					v.Scenario = name
					v.Input = map[string]any{"taskfile": tf, "args": args}
					res.SigCounts[v.Sig]++
					if res.SigCounts[v.Sig] == 1 {
						res.Violations = append(res.Violations, v)
					}
				}
			}
		}
		// task names that YAML would read as something other than a string when written without quotes
		// (null, booleans, numbers): the name is the text as written
		{
			names := []string{"~", "null", "Null", "true", "no", "1", "1.0", "0x10", "1e3", ".inf", "2001-12-14"}
			tf2 := "version: '3'\ntasks:\n"
			for _, nm := range names {
				tf2 += "  " + nm + ":\n    cmds:\n      - echo 'ran-" + nm + "' >> ran.log\n"
			}
			for _, nm := range names {
				os.RemoveAll(dir)
				os.MkdirAll(dir, 0o755)
				os.WriteFile(filepath.Join(dir, "Taskfile.yml"), []byte(tf2), 0o644)
				_, se, rc := RunCLI(dir, nil, "", "--silent", nm)
				n++
				ran, _ := os.ReadFile(filepath.Join(dir, "ran.log"))
				if rc != 0 || strings.TrimSpace(string(ran)) != "ran-"+nm {
					v := vlab.V("C15", "wrong_task_or_none", "cli:yaml_scalar_name", fmt.Sprintf("task %q: status %d, ran %q (stderr %q), expected the task of that name", nm, rc, strings.TrimSpace(string(ran)), firstN(se, 100)))
					v.Scenario = name
					v.Input = map[string]any{"taskfile": tf2, "args": []string{nm}}
					res.SigCounts[v.Sig]++
					if res.SigCounts[v.Sig] == 1 {
						res.Violations = append(res.Violations, v)
					}
				}
			}
		}
		res.Extra["samples"] = samples
		res.Stats = vlab.Stats{Scenario: name, Execs: n, States: n, Transitions: n, Outcomes: 2, Exhaustive: true}
		return res
	}}
}
