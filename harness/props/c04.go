package props

import (
	"fmt"
	"os"
	"path/filepath"
	"sort"
	"strings"
	"time"

	"github.com/go-task/task/v3/zverif/vlab"
)

func init() {
	registry["C04"] = func(tier string) []*Unit { return fpUnits("C04", tier) }
	registry["C12"] = func(tier string) []*Unit { return fpUnits("C12", tier) }
}

type fpShape struct {
	name      string
	method    string
	generates bool
	gen2      bool // a second generates entry (out2.txt), written by the same command
	prompt    bool
	collide   bool // a second task whose name normalises to the same state file, same sources
	twin      bool // two tasks whose names differ in one punctuation character that is legal in file names (a_b / a-b): separate state
	noMatch   bool // the sources pattern matches no file at all
	dep       bool // build depends on another fingerprinted task
	include   bool // the task lives in an included Taskfile (namespaced)
	label     bool
	dirAttr   bool   // task has dir: newdir (does not exist at first)
	dirSh     bool   // with dirAttr: the task also has a dynamic variable, a precondition and a status check (commands that read-only modes still run)
	selfEdit  bool   // the command rewrites a matched source (src/made.txt: orig -> made) while it runs
	condLabel bool   // label: 'build{{if .TARGET}}-{{.TARGET}}{{end}}' (equals the task name unless TARGET is given)
	guardCall bool   // the task calls another task whose precondition holds only while the (real) run is in progress
	deferCmd  bool   // the task has a deferred shell command that writes a file
	global    string // top-level method: differing from the task's own
	broken    bool   // the Taskfile also has a task that cannot be compiled (for over a non-list var)
	silent    string // "task": the task is silent; "taskfile": the Taskfile is (commands are not echoed)
}

func (sh fpShape) taskName() string {
	if sh.include {
		return "inc:build"
	}
	if sh.collide {
		return "a:b"
	}
	if sh.twin {
		return "a_b"
	}
	return "build"
}

func fpBody(tag string, sh fpShape) string {
	lines := []string{
		"    cmds:",
	}
	if sh.deferCmd {
		lines = append(lines, "      - defer: 'echo deferred:"+tag+" >> {{.ROOT_DIR}}/deferred.txt'")
	}
	lines = append(lines,
		"      - 'echo start:"+tag+" >> {{.ROOT_DIR}}/trace.log'",
		"      - 'if [ \"$KILL_AT\" = \"1\" ]; then kill -9 $$; fi; if [ \"$FAIL_AT\" = \"1\" ]; then exit 3; fi'",
	)
	if sh.selfEdit {
		lines = append(lines, "      - 'echo made > {{.ROOT_DIR}}/src/made.txt'")
	}
	if sh.generates {
		lines = append(lines, "      - 'cat {{.ROOT_DIR}}/src/*.txt > {{.ROOT_DIR}}/out.txt'")
		if sh.gen2 {
			lines = append(lines, "      - 'cat {{.ROOT_DIR}}/src/*.txt > {{.ROOT_DIR}}/out2.txt'")
		}
	} else {
		lines = append(lines, "      - 'true'")
	}
	if sh.guardCall {
		lines = append(lines, "      - 'touch {{.ROOT_DIR}}/marker'", "      - task: guarded", "      - 'rm -f {{.ROOT_DIR}}/marker'")
	}
	lines = append(lines,
		"      - 'if [ \"$KILL_AT\" = \"2\" ]; then kill -9 $$; fi; if [ \"$FAIL_AT\" = \"2\" ]; then exit 3; fi'",
		"      - 'echo done:"+tag+" >> {{.ROOT_DIR}}/trace.log'")
	return strings.Join(lines, "\n") + "\n"
}

func (sh fpShape) files() map[string]string {
	task := func(name, tag string) string {
		s := "  '" + name + "':\n    method: " + sh.method + "\n    sources: ['{{.ROOT_DIR}}/src/*.txt']\n"
		if sh.noMatch {
			s = "  '" + name + "':\n    method: " + sh.method + "\n    sources: ['{{.ROOT_DIR}}/src/*.none']\n"
		}
		if sh.gen2 {
			s += "    generates: ['{{.ROOT_DIR}}/out.txt', '{{.ROOT_DIR}}/out2.txt']\n"
		} else if sh.generates {
			s += "    generates: ['{{.ROOT_DIR}}/out.txt']\n"
		}
		if sh.prompt {
			s += "    prompt: 'sure?'\n"
		}
		if sh.silent == "task" {
			s += "    silent: true\n"
		}
		if sh.label {
			s += "    label: 'the-{{.TASK}}'\n"
		}
		if sh.condLabel {
			s += "    label: '{{.TASK}}{{if .TARGET}}-{{.TARGET}}{{end}}'\n"
		}
		if sh.dirAttr {
			s += "    dir: newdir\n"
		}
		if sh.dirSh {
			s += "    vars:\n      DYN: {sh: 'echo dyn'}\n    preconditions:\n      - 'true'\n    status:\n      - 'false'\n"
		}
		if sh.dep && tag == "build" {
			s += "    deps: [prep]\n"
		}
		return s + fpBody(tag, sh)
	}
	files := map[string]string{"src/a.txt": "1\n"}
	if sh.selfEdit {
		files["src/made.txt"] = "orig\n"
	}
	switch {
	case sh.include:
		files["Taskfile.yml"] = "version: '3'\nincludes:\n  inc: ./inc.yml\ntasks:\n  other:\n    cmds: ['true']\n"
		files["inc.yml"] = "version: '3'\ntasks:\n" + task("build", "build")
	case sh.collide:
		files["Taskfile.yml"] = "version: '3'\ntasks:\n" + task("a:b", "build") + task("a-b", "other")
	case sh.twin:
		files["Taskfile.yml"] = "version: '3'\ntasks:\n" + task("a_b", "build") + task("a-b", "other")
	case sh.dep:
		files["Taskfile.yml"] = "version: '3'\ntasks:\n" + task("build", "build") +
			"  prep:\n    method: " + sh.method + "\n    sources: ['{{.ROOT_DIR}}/src/*.txt']\n    cmds:\n      - 'echo start:prep >> {{.ROOT_DIR}}/trace.log'\n      - 'echo done:prep >> {{.ROOT_DIR}}/trace.log'\n"
	default:
		files["Taskfile.yml"] = "version: '3'\ntasks:\n" + task("build", "build")
	}
	if sh.silent == "taskfile" {
		files["Taskfile.yml"] = strings.Replace(files["Taskfile.yml"], "version: '3'\n", "version: '3'\nsilent: true\n", 1)
	}
	if sh.global != "" {
		files["Taskfile.yml"] = strings.Replace(files["Taskfile.yml"], "version: '3'\n", "version: '3'\nmethod: "+sh.global+"\n", 1)
	}
	if sh.guardCall {
		files["Taskfile.yml"] += "  guarded:\n    preconditions:\n      - 'test -f {{.ROOT_DIR}}/marker'\n    cmds:\n      - 'true'\n"
	}
	if sh.broken {
		files["Taskfile.yml"] += "  broken:\n    vars: {N: 42}\n    cmds:\n      - for: {var: N}\n        cmd: echo {{.ITEM}}\n"
	}
	return files
}

type fpModel struct {
	// outcome of the most recent attempt to run build's commands, per source fingerprint
	// (checksum: by names+contents; timestamp: only the present fingerprint is remembered)
	Attempts map[string]string
	LastInv  string // last invocation that changed the fingerprint state under .task (for signatures)
	TSFp     string
	FpIDs    map[string]string // timestamp: raw fingerprint (names and mtimes) -> name in order of appearance
	// Taint: signature tag of the first unsound skip for a fingerprint; later skips of the same
	// stale state are consequences of that one and carry the same tag
	Taint map[string]string
}

func (m *fpModel) Key() string {
	var ks []string
	for k, v := range m.Attempts {
		ks = append(ks, k+"->"+v)
	}
	sort.Strings(ks)
	var ts []string
	for k, v := range m.Taint {
		ts = append(ts, k+"~"+v)
	}
	sort.Strings(ts)
	return strings.Join(ks, ",") + "/" + m.LastInv + "/" + strings.Join(ts, ",")
}

func baseInv(n string) string { return strings.TrimRight(n, "12") }

func (m *fpModel) Clone() hModel {
	c := &fpModel{Attempts: map[string]string{}, LastInv: m.LastInv, TSFp: m.TSFp, Taint: map[string]string{}, FpIDs: map[string]string{}}
	for k, v := range m.FpIDs {
		c.FpIDs[k] = v
	}
	for k, v := range m.Attempts {
		c.Attempts[k] = v
	}
	for k, v := range m.Taint {
		c.Taint[k] = v
	}
	return c
}

// fingerprint of the sources as the property defines it
func fpOf(dir, method string) string {
	files, _ := filepath.Glob(filepath.Join(dir, "src", "*.txt"))
	sort.Strings(files)
	var parts []string
	for _, f := range files {
		b, _ := os.ReadFile(f)
		if method == "checksum" {
			parts = append(parts, filepath.Base(f)+"="+strings.TrimSpace(string(b)))
		} else {
			st, _ := os.Stat(f)
			parts = append(parts, fmt.Sprintf("%s@%d", filepath.Base(f), st.ModTime().UnixNano()))
		}
	}
	return strings.Join(parts, ",")
}

func traceOf(dir string) []string {
	b, _ := os.ReadFile(filepath.Join(dir, "trace.log"))
	return strings.Fields(string(b))
}

type fpInv struct {
	name     string
	args     []string
	env      []string
	readOnly bool   // C12: must not change anything and must not run commands
	kind     string // run | query
	other    bool   // runs the colliding task instead
	onlyIf   func(sh fpShape) bool
}

func fpInvocations(sh fpShape) []fpInv {
	t := sh.taskName()
	yes := []string{}
	if sh.prompt {
		yes = []string{"--yes"}
	}
	invs := []fpInv{
		{name: "run", args: append(append([]string{}, yes...), t), kind: "run"},
		{name: "run-fail1", args: append(append([]string{}, yes...), t), env: []string{"FAIL_AT=1"}, kind: "run"},
		{name: "run-fail2", args: append(append([]string{}, yes...), t), env: []string{"FAIL_AT=2"}, kind: "run"},
		{name: "run-kill1", args: append(append([]string{}, yes...), t), env: []string{"KILL_AT=1"}, kind: "run"},
		{name: "run-kill2", args: append(append([]string{}, yes...), t), env: []string{"KILL_AT=2"}, kind: "run"},
		{name: "force", args: append(append([]string{"--force"}, yes...), t), kind: "run"},
		{name: "force-fail2", args: append(append([]string{"--force"}, yes...), t), env: []string{"FAIL_AT=2"}, kind: "run"},
		{name: "dry", args: []string{"--dry", t}, readOnly: true, kind: "query"},
		{name: "status", args: []string{"--status", t}, readOnly: true, kind: "query"},
		{name: "list", args: []string{"--list"}, readOnly: true, kind: "query"},
		{name: "list-all", args: []string{"--list-all"}, readOnly: true, kind: "query"},
		{name: "list-all-json", args: []string{"--list-all", "--json"}, readOnly: true, kind: "query"},
		{name: "list-json-nostatus", args: []string{"--list-all", "--json", "--no-status"}, readOnly: true, kind: "query"},
		{name: "summary", args: []string{"--summary", t}, readOnly: true, kind: "query"},
		{name: "dry-force", args: []string{"--dry", "--force", t}, readOnly: true, kind: "query"},
	}
	if sh.prompt {
		invs = append(invs, fpInv{name: "run-declined", args: []string{t}, kind: "run"})
	}
	if sh.collide || sh.twin {
		invs = append(invs, fpInv{name: "run-other", args: []string{"a-b"}, kind: "run", other: true})
	}
	if sh.condLabel {
		invs = append(invs, fpInv{name: "dry-other-label", args: []string{"--dry", t, "TARGET=arm"}, readOnly: true, kind: "query"},
			fpInv{name: "status-other-label", args: []string{"--status", t, "TARGET=arm"}, readOnly: true, kind: "query"})
	}
	if sh.broken {
		invs = append(invs, fpInv{name: "summary-with-broken", args: []string{"--summary", t, "broken"}, readOnly: true, kind: "query"},
			fpInv{name: "dry-with-broken", args: []string{"--dry", t, "broken"}, readOnly: true, kind: "query"})
	}
	return invs
}

func fpEvents(prop string, sh fpShape, tier string) []hEvent {
	var evs []hEvent
	// file events
	evs = append(evs,
		hEvent{Name: "edit-a", Apply: func(dir string, m hModel, _ []string) []vlab.Violation {
			p := filepath.Join(dir, "src/a.txt")
			b, _ := os.ReadFile(p)
			if strings.TrimSpace(string(b)) == "1" {
				os.WriteFile(p, []byte("2\n"), 0o644)
			} else {
				os.WriteFile(p, []byte("1\n"), 0o644)
			}
			return nil
		}},
		hEvent{Name: "touch-a", Apply: func(dir string, m hModel, _ []string) []vlab.Violation {
			now := time.Now()
			os.Chtimes(filepath.Join(dir, "src/a.txt"), now, now)
			return nil
		}},
		hEvent{Name: "add-b", Enabled: func(s snapshot, _ hModel) bool { _, ok := s["src/b.txt"]; return !ok },
			Apply: func(dir string, m hModel, _ []string) []vlab.Violation {
				os.WriteFile(filepath.Join(dir, "src/b.txt"), []byte("x\n"), 0o644)
				return nil
			}},
		hEvent{Name: "rm-b", Enabled: func(s snapshot, _ hModel) bool { _, ok := s["src/b.txt"]; return ok },
			Apply: func(dir string, m hModel, _ []string) []vlab.Violation {
				os.Remove(filepath.Join(dir, "src/b.txt"))
				return nil
			}},
	)
	if sh.generates {
		evs = append(evs, hEvent{Name: "rm-out", Enabled: func(s snapshot, _ hModel) bool { _, ok := s["out.txt"]; return ok },
			Apply: func(dir string, m hModel, _ []string) []vlab.Violation {
				os.Remove(filepath.Join(dir, "out.txt"))
				return nil
			}})
	}
	if sh.gen2 {
		evs = append(evs, hEvent{Name: "rm-out2", Enabled: func(s snapshot, _ hModel) bool { _, ok := s["out2.txt"]; return ok },
			Apply: func(dir string, m hModel, _ []string) []vlab.Violation {
				os.Remove(filepath.Join(dir, "out2.txt"))
				return nil
			}})
	}
	for _, inv := range fpInvocations(sh) {
		inv := inv
		if prop == "C04" && tier != "thorough" && (inv.name == "list" || inv.name == "list-all" || inv.name == "summary" || inv.name == "list-json-nostatus" || inv.name == "dry-force" || inv.name == "run-fail1" || inv.name == "run-kill1") {
			continue // C04 quick: the queries that can matter for state are dry/status/list-all-json
		}
		if prop == "C12" && tier != "thorough" && (inv.name == "run-fail1" || inv.name == "run-kill1" || inv.name == "run-kill2" || inv.name == "force-fail2") {
			continue
		}
		evs = append(evs, hEvent{Name: inv.name, Apply: func(dir string, hm hModel, hist []string) []vlab.Violation {
			m := hm.(*fpModel)
			var out []vlab.Violation
			fp := fpOf(dir, sh.method)
			if sh.noMatch {
				fp = "(the sources pattern matches no file)"
			}
			key := fp
			if sh.method == "timestamp" {
				// (modification times differ from history to history: fingerprints are named in their order
				// of appearance, so that equal situations still have equal model keys; a fingerprint that
				// comes back — a source added and removed again — finds its own earlier attempts)
				if m.FpIDs == nil {
					m.FpIDs = map[string]string{}
				}
				if _, ok := m.FpIDs[fp]; !ok {
					m.FpIDs[fp] = fmt.Sprintf("fp%d", len(m.FpIDs))
				}
				key = m.FpIDs[fp]
			}
			before := takeSnapshot(dir)
			tr0 := traceOf(dir)
			_, se, rc := RunCLI(dir, inv.env, "", inv.args...)
			tr1 := traceOf(dir)
			after := takeSnapshot(dir)
			delta := tr1[len(tr0):]
			started, done := false, false
			for _, l := range delta {
				if l == "start:build" {
					started = true
				}
				if l == "done:build" {
					done = true
				}
			}
			wroteState := false
			for _, d := range before.diff(after) {
				if strings.Contains(d, ":.task") {
					wroteState = true
				}
			}
			if wroteState {
				defer func() { m.LastInv = inv.name }()
			}
			if inv.other {
				for _, l := range delta {
					if l == "done:other" {
						if sh.twin {
							// separate tasks with separate state: the twin's success says nothing about
							// build and takes nothing away from build's own record either
							if _, own := m.Attempts[key]; !own {
								m.Attempts[key] = "only-the-task-whose-name-differs-in-an-underscore-ran"
							}
							continue
						}
						m.Attempts[key] = "other-task" // an attempt of a DIFFERENT task: says nothing about build
					}
				}
				return out
			}
			if rc == -2 {
				out = append(out, vlab.V(prop, "hang", inv.name, fmt.Sprintf("invocation %v did not finish within the horizon (history %v)", inv.args, hist)))
			}
			if inv.readOnly {
				if prop == "C12" {
					if started || len(delta) > 0 {
						out = append(out, vlab.V("C12", "query_ran_commands", inv.name, fmt.Sprintf("%v executed commands of the task: %v (history %v)", inv.args, delta, hist)))
					}
					if d := before.diff(after); len(d) > 0 {
						out = append(out, vlab.V("C12", "query_changed_files", inv.name+":"+classifyDiff(d), fmt.Sprintf("%v changed the project: %v (history %v)", inv.args, d, hist)))
					}
				}
				return out
			}
			// a normal run
			forced := strings.HasPrefix(inv.name, "force")
			skipped := !started && rc == 0
			if prop == "C04" && skipped && !forced {
				prev, ok := m.Attempts[key]
				genOK := true
				if sh.generates {
					_, err := os.Stat(filepath.Join(dir, "out.txt"))
					genOK = err == nil
					if sh.gen2 {
						_, err2 := os.Stat(filepath.Join(dir, "out2.txt"))
						genOK = genOK && err2 == nil
					}
				}
				if !ok {
					prev = "none"
				}
				if prev != "success" || !genOK {
					tag := fmt.Sprintf("%s:last_attempt=%s", sh.method, prev)
					_ = baseInv
					if !genOK {
						tag += ":generates_missing"
					} else if sh.generates && sh.method == "timestamp" {
						tag += ":output_exists" // the generated file exists (and is newer than the sources)
					}
					if t, ok := m.Taint[key]; ok {
						tag = t
					} else {
						m.Taint[key] = tag
					}
					out = append(out, vlab.V("C04", "skipped_without_successful_attempt", tag,
						fmt.Sprintf("%v reported up to date and ran nothing, but the most recent attempt for the present sources was %q (history %v; stderr %q)", inv.args, prev, hist, firstN(se, 120))))
				}
			}
			if prop == "C04" && forced && !started && rc == 0 {
				out = append(out, vlab.V("C04", "force_did_not_run", sh.method, fmt.Sprintf("--force ran nothing (history %v)", hist)))
			}
			if started {
				delete(m.Taint, key)
			}
			switch {
			case started && done && rc == 0:
				m.Attempts[key] = "success"
			case started && strings.Contains(inv.name, "kill"):
				m.Attempts[key] = "killed"
			case started:
				m.Attempts[key] = "failed"
			case inv.name == "run-declined" && rc == 205:
				// (a prompt comes after the up-to-date check: an up-to-date task is skipped without asking)
				m.Attempts[key] = "declined"
			}
			return out
		}})
	}
	return evs
}

func classifyDiff(d []string) string {
	kinds := map[string]bool{}
	for _, x := range d {
		parts := strings.SplitN(x, ":", 2)
		where := "project"
		if strings.HasPrefix(parts[1], ".task") {
			where = "task_state"
		}
		kinds[parts[0]+"@"+where] = true
	}
	return strings.Join(vlab.SortedSet(kinds), "+")
}

// cancelled by a sibling failure: a fingerprinted dependency next to a failing sibling, all
// schedules; the directory every execution leaves behind is fed to a follow-up normal run.
func c04CancelUnits(tier string) []*Unit {
	var us []*Unit
	type fam struct {
		name   string
		pg     func(method string) *Prog
		fpInst vlab.Inst
		tag    string
		what   string
	}
	fams := []fam{
		{"cancelled-by-sibling", func(method string) *Prog {
			return &Prog{Tasks: []*T{
				{Name: "root", Deps: []Ref{D("fp"), D("failer")}},
				{Name: "fp", Method: method, Sources: []string{"src.txt"}, Cmds: []C{P(), P()}},
				{Name: "failer", Cmds: []C{P(), F()}},
			}}
		}, vlab.Inst{Task: "fp", VP: "@>root.d0"}, "cancelled", "fp was cancelled by its failing sibling"},
		// fp's last command calls a run-once task whose single execution (started earlier by a
		// task that ignores errors) failed: fp fails with it and records nothing
		{"last-command-calls-failed-shared-task", func(method string) *Prog {
			return &Prog{Tasks: []*T{
				{Name: "root", Cmds: []C{Call("ig"), Call("fp")}},
				{Name: "ig", IgnoreError: true, Cmds: []C{CallS("shared", "=")}},
				{Name: "shared", Run: "once", Cmds: []C{P(), F()}},
				{Name: "fp", Method: method, Sources: []string{"src.txt"}, Cmds: []C{P(), CallS("shared", "=")}},
			}}
		}, vlab.Inst{Task: "fp", VP: "@>root.c1"}, "failed_in_called_shared_task", "fp failed in its call of a shared task whose only execution had failed"},
	}
	// fp's only command carries ignore_error and consists of two statements; a failing sibling
	// cancels it between them. ignore_error covers the command's exit status, not its cancellation:
	// the attempt did not complete and nothing is recorded.
	for _, method := range []string{"checksum", "timestamp"} {
		method := method
		pg := &Prog{Tasks: []*T{
			{Name: "root", Deps: []Ref{D("fp"), D("failer")}},
			{Name: "fp", Method: method, Sources: []string{"src.txt"}, RawLines: []string{"cmds:",
				"  - cmd: \"printf '%s\\\\n' 'P|fp|0|{{.VP}}|first'; printf '%s\\\\n' 'P|fp|1|{{.VP}}|second'\"", "    ignore_error: true"}},
			{Name: "failer", Cmds: []C{P(), F()}},
		}}
		sc := scen("cancelled-inside-an-ignore_error-command/"+method, pg, vlab.Options{}, "root")
		sc.Files["src.txt"] = "1\n"
		sc.UsesFS = true
		follow := &vlab.Scenario{Name: "followup", Files: sc.Files, Calls: []vlab.CallSpec{{Task: "fp", Vars: [][2]string{{"VP", "@2"}}}}}
		sc.AfterRun = func(dir string, x *vlab.Exec) {
			y := runFree(follow, dir)
			ran := false
			for _, e := range y.Trace {
				if strings.Contains(e.Line, "|fp|") {
					ran = true
				}
			}
			x.Aux["followup_ran"] = fmt.Sprint(ran)
			x.Aux["followup_err"] = y.ErrStr
		}
		check := func(x *vlab.Exec) []vlab.Violation {
			out := generic("C04", x)
			first, second := false, false
			for _, e := range vlab.ParseTrace(x.Trace) {
				if e.K == 'F' && e.Task == "fp" && e.Idx == "0" {
					first = true
				}
				if e.K == 'F' && e.Task == "fp" && e.Idx == "1" {
					second = true
				}
			}
			if first && !second && x.Aux["followup_ran"] == "false" && x.Aux["followup_err"] == "" {
				out = append(out, vlab.V("C04", "skipped_without_successful_attempt", method+":last_attempt=cancelled_inside_ignore_error_command",
					"fp's command was cancelled after its first statement (its second never ran), yet the next normal run of fp reported up to date and ran nothing"))
			}
			return out
		}
		us = append(us, &Unit{Name: sc.Name, Sc: sc, Bound: 2, Prune: false, Check: check, Weight: 6})
	}
	// A fingerprinted dependency with a success on record whose output was removed, needed by two
	// dependents at the same time (two instances): an instance may be skipped as up to date only when
	// no attempt for the present sources is still running - the other instance's run in particular.
	for _, method := range []string{"checksum", "timestamp"} {
		method := method
		pr := func(task string, idx int, vp string) string {
			return fmt.Sprintf("      - printf '%%s\\n' 'P|%s|%d|%s|'\n", task, idx, vp)
		}
		files := map[string]string{
			"src.txt": "1\n",
			"Taskfile.yml": "version: '3'\ntasks:\n  root:\n    cmds:\n      - task: gen\n        vars: {VP: '@>root.c0'}\n      - rm -f out.txt\n      - task: pair\n" +
				"  pair:\n    deps:\n      - task: d\n        vars: {VP: '@>pair.d0'}\n      - task: d\n        vars: {VP: '@>pair.d1'}\n" +
				"  d:\n    deps:\n      - task: gen\n        vars: {VP: '{{.VP}}>d.d0'}\n    cmds:\n" + pr("d", 0, "{{.VP}}") +
				"  gen:\n    method: " + method + "\n    sources: [src.txt]\n    generates: [out.txt]\n    cmds:\n" + pr("gen", 0, "{{.VP}}") + "      - echo built > out.txt\n" + pr("gen", 2, "{{.VP}}"),
		}
		sc := &vlab.Scenario{Name: "two-dependents-of-a-rerunning-fingerprinted-dep/" + method, Files: files, UsesFS: true, Calls: []vlab.CallSpec{{Task: "root"}}}
		check := func(x *vlab.Exec) []vlab.Violation {
			out := generic("C04", x)
			ev := vlab.ParseTrace(x.Trace)
			type span struct{ s, f int }
			runs := map[string]*span{}
			for _, e := range ev {
				if e.Task == "gen" && strings.HasPrefix(e.VP, "@>pair") {
					sp := runs[e.VP]
					if sp == nil {
						sp = &span{s: e.Pos, f: -1}
						runs[e.VP] = sp
					}
					if e.K == 'F' && e.Idx == "2" {
						sp.f = e.Pos
					}
				}
			}
			for _, e := range ev {
				if e.K != 'S' || e.Task != "d" {
					continue
				}
				if _, ran := runs[e.VP+">d.d0"]; ran {
					continue // this dependent's own instance of gen ran (C01 judges its completion)
				}
				for vp, sp := range runs {
					if sp.s < e.Pos && (sp.f < 0 || sp.f > e.Pos) {
						out = append(out, vlab.V("C04", "skipped_without_successful_attempt", method+":last_attempt=still_running",
							fmt.Sprintf("the instance of gen needed by %s was skipped as up to date and %s started its command at position %d while the attempt %s (started at %d) had not finished", e.Inst(), e.Inst(), e.Pos, vp, sp.s)))
					}
				}
			}
			if x.Code != 0 {
				out = append(out, vlab.V("C04", "spurious_failure", method, fmt.Sprintf("status %d (%s)", x.Code, firstN(x.ErrStr, 100))))
			}
			return out
		}
		us = append(us, &Unit{Name: sc.Name, Sc: sc, Bound: 2, Prune: false, Check: check, Weight: 6})
	}
	for _, f := range fams {
		for _, method := range []string{"checksum", "timestamp"} {
			method, f := method, f
			pg := f.pg(method)
			sc := scen(f.name+"/"+method, pg, vlab.Options{}, "root")
			sc.Files["src.txt"] = "1\n"
			sc.UsesFS = true
			follow := &vlab.Scenario{Name: "followup", Files: sc.Files, Calls: []vlab.CallSpec{{Task: "fp", Vars: [][2]string{{"VP", "@2"}}}}}
			sc.AfterRun = func(dir string, x *vlab.Exec) {
				y := runFree(follow, dir)
				ran := false
				for _, e := range y.Trace {
					if strings.Contains(e.Line, "|fp|") {
						ran = true
					}
				}
				x.Aux["followup_ran"] = fmt.Sprint(ran)
				x.Aux["followup_err"] = y.ErrStr
			}
			check := func(x *vlab.Exec) []vlab.Violation {
				out := generic("C04", x)
				ev := vlab.ParseTrace(x.Trace)
				ti := vlab.IndexTrace(ev)
				st := pg.Completed(ti, f.fpInst, len(ev)+1, 0)
				if st != vlab.StOK && x.Aux["followup_ran"] == "false" && x.Aux["followup_err"] == "" {
					stage := "not_started"
					if ti.First('S', "fp", "0", f.fpInst.VP) >= 0 {
						stage = "stopped_between_commands"
					}
					if ti.First('S', "fp", "1", f.fpInst.VP) >= 0 {
						stage = "stopped_in_last_command"
					}
					out = append(out, vlab.V("C04", "skipped_without_successful_attempt", method+":last_attempt="+f.tag,
						fmt.Sprintf("%s (%s) and did not complete, yet the next normal run of fp reported up to date and ran nothing", f.what, stage)))
				}
				return out
			}
			bound := 2
			if tier == "thorough" {
				bound = 3
			}
			us = append(us, &Unit{Name: sc.Name, Sc: sc, Bound: bound, Prune: false, Check: check, Weight: 6})
		}
	}
	return us
}

func fpUnits(prop, tier string) []*Unit {
	var shapes []fpShape
	for _, m := range []string{"checksum", "timestamp"} {
		shapes = append(shapes,
			fpShape{name: "plain", method: m},
			fpShape{name: "generates", method: m, generates: true},
			fpShape{name: "prompt", method: m, prompt: true},
			fpShape{name: "collide", method: m, collide: true},
			fpShape{name: "include-label", method: m, include: true, label: true},
		)
		if prop == "C12" {
			shapes = append(shapes, fpShape{name: "dir-attr", method: m, dirAttr: true}, fpShape{name: "with-broken-task", method: m, broken: true},
				fpShape{name: "dir-attr-dynvar-precondition-status", method: m, dirAttr: true, dirSh: true}, fpShape{name: "deferred-command", method: m, deferCmd: true}, fpShape{name: "label-depends-on-call-variable", method: m, condLabel: true},
				fpShape{name: "calls-a-task-that-fails-under-dry", method: m, guardCall: true})
			if m == "checksum" {
				shapes = append(shapes, fpShape{name: "silent-task", method: m, silent: "task", generates: true}, fpShape{name: "silent-taskfile", method: m, silent: "taskfile", generates: true})
			}
		} else {
			shapes = append(shapes, fpShape{name: "dep", method: m, dep: true}, fpShape{name: "two-generates", method: m, generates: true, gen2: true},
				fpShape{name: "twin-names-underscore-dash", method: m, twin: true}, fpShape{name: "sources-match-nothing", method: m, noMatch: true})
			if m == "checksum" {
				// (method timestamp is left out: a source written a millisecond after the run started
				// carries a modification time that the coarse file-system clock may put before that
				// start; every other event of these histories is separated by a full clock tick)
				shapes = append(shapes, fpShape{name: "command-rewrites-a-source", method: m, selfEdit: true})
			}
			other := "timestamp"
			if m == "timestamp" {
				other = "none"
			}
			shapes = append(shapes, fpShape{name: "global-method-" + other, method: m, global: other})
		}
	}
	var us []*Unit
	for _, sh := range shapes {
		sh := sh
		depth := 3
		if tier == "thorough" {
			depth = 5
		}
		name := fmt.Sprintf("hist/%s/%s/depth%d", sh.method, sh.name, depth)
		us = append(us, &Unit{Name: name, Weight: 5, Custom: func(u *Unit, dir string, deadline time.Time) *vlab.UnitResult {
			cfg := hConfig{Name: name, Depth: depth, Events: fpEvents(prop, sh, tier),
				Ignore: func(p string) bool { return p == "trace.log" },
				Init: func(dir string) hModel {
					for rel, c := range sh.files() {
						p := filepath.Join(dir, rel)
						os.MkdirAll(filepath.Dir(p), 0o755)
						os.WriteFile(p, []byte(c), 0o644)
					}
					return &fpModel{Attempts: map[string]string{}, LastInv: "init", Taint: map[string]string{}}
				}}
			return runHist(cfg, dir, deadline)
		}})
	}
	if prop == "C04" {
		us = append(us, c04CancelUnits(tier)...)
	}
	return us
}
