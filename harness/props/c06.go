package props

import (
	"fmt"
	"sort"
	"strings"

	"github.com/go-task/task/v3/zverif/vlab"
)

func init() { registry["C06"] = c06Units }

type c06Spec struct {
	pg *Prog
	// task -> mode under test and, for when_changed, the distinct variable sets ("key") that the
	// program's references pass (the key is what the probe's Extra/shell-extra field prints)
	dedup map[string]*c06Task
}

type c06Task struct {
	mode     string
	keys     []string // when_changed: expected distinct printed keys
	refs     int      // always: number of static reference paths (instances) expected on success
	flow     string
	keyEntry int // cmds index of the probe that prints the key (in keyTask)
	keyTask  string
}

// c06Check counts executions of a task's first command entry.
//
//	once:          at most one execution in the whole invocation
//	when_changed:  at most one per distinct variable set; exactly one per set if the invocation succeeded
//	always:        exactly one per reference instance if the invocation succeeded
//
// plus (through c01Check / c02Check in the unit) every referrer waits for the real execution.
func c06Check(sp *c06Spec) func(x *vlab.Exec) []vlab.Violation {
	return func(x *vlab.Exec) []vlab.Violation {
		out := generic("C06", x)
		ev := vlab.ParseTrace(x.Trace)
		if x.Code != 0 && !progMayFail(sp.pg) && !x.Res.Deadlock && !x.Res.Horizon && x.Res.Panic == "" {
			// (no command of this program fails and nothing guards a task: the counting clauses below only
			// bind successful invocations, so a failing one must not pass for "nothing to count")
			out = append(out, vlab.V("C06", "spurious_failure", "", fmt.Sprintf("no command fails, yet the invocation ended with status %d (%s)", x.Code, firstN(x.ErrStr, 120))))
		}
		for name, dt := range sp.dedup {
			// executions of the task = S events of its entry 0, grouped by printed key
			total := 0
			perKey := map[string]int{}
			perInst := map[string]int{}
			kt := dt.keyTask
			if kt == "" {
				kt = name
			}
			for _, e := range ev {
				if e.K != 'S' {
					continue
				}
				j, _ := e.CmdIndex()
				if e.Task == name && j == 0 {
					total++
					perInst[e.VP]++
				}
				if e.Task == kt && j == dt.keyEntry {
					perKey[e.Extra]++
				}
			}
			switch dt.mode {
			case "once":
				if total > 1 {
					out = append(out, vlab.V("C06", "once_ran_more_than_once", "", fmt.Sprintf("run: once task %s executed %d times", name, total)))
				}
				if x.Code == 0 && total == 0 && dt.refs > 0 {
					out = append(out, vlab.V("C06", "once_never_ran", "", fmt.Sprintf("invocation succeeded but run: once task %s never executed", name)))
				}
			case "when_changed":
				for k, n := range perKey {
					if n > 1 {
						out = append(out, vlab.V("C06", "when_changed_repeated", dt.flow, fmt.Sprintf("run: when_changed task %s executed %d times for the variable set %q", name, n, k)))
					}
				}
				if x.Code == 0 {
					for _, k := range dt.keys {
						if perKey[k] == 0 {
							out = append(out, vlab.V("C06", "when_changed_missing_execution", dt.flow,
								fmt.Sprintf("invocation succeeded but run: when_changed task %s never executed for the variable set %q (executed for %v)", name, k, keysOf(perKey))))
						}
					}
				}
			case "always":
				for vp, n := range perInst {
					if n > 1 {
						out = append(out, vlab.V("C06", "always_repeated", "", fmt.Sprintf("run: always task %s executed %d times for the single reference %s", name, n, vp)))
					}
				}
				if x.Code == 0 && len(perInst) != dt.refs {
					out = append(out, vlab.V("C06", "always_count", "", fmt.Sprintf("invocation succeeded; run: always task %s executed for %d references, expected %d", name, len(perInst), dt.refs)))
				}
			}
		}
		return out
	}
}

func keysOf(m map[string]int) []string {
	var ks []string
	for k := range m {
		ks = append(ks, k)
	}
	sort.Strings(ks)
	return ks
}

func c06Specs() map[string]*c06Spec {
	m := map[string]*c06Spec{}
	// once referenced from deps and cmds at depth <= 3
	m["once-depth3"] = &c06Spec{pg: &Prog{Tasks: []*T{
		{Name: "root", Deps: []Ref{D("a"), D("b")}, Cmds: []C{CallS("s", "="), P()}},
		{Name: "a", Cmds: []C{CallS("s", "="), P()}},
		{Name: "b", Deps: []Ref{D("c")}, Cmds: []C{P()}},
		{Name: "c", Cmds: []C{P(), CallS("s", "=")}},
		{Name: "s", Run: "once", Cmds: []C{P(), P()}},
	}}, dedup: map[string]*c06Task{"s": {mode: "once", refs: 3}}}
	m["once-failing"] = &c06Spec{pg: &Prog{Tasks: []*T{
		{Name: "root", Deps: []Ref{D("a"), D("b")}, Cmds: []C{P()}},
		{Name: "a", IgnoreError: true, Cmds: []C{CallS("s", "="), P()}},
		{Name: "b", IgnoreError: true, Cmds: []C{P(), CallS("s", "="), P()}},
		{Name: "s", Run: "once", Cmds: []C{P(), F()}},
	}}, dedup: map[string]*c06Task{"s": {mode: "once", refs: 2}}}
	m["always-3refs"] = &c06Spec{pg: &Prog{Tasks: []*T{
		{Name: "root", Deps: []Ref{D("a"), D("s")}, Cmds: []C{Call("s"), P()}},
		{Name: "a", Cmds: []C{Call("s")}},
		{Name: "s", Cmds: []C{P()}},
	}}, dedup: map[string]*c06Task{"s": {mode: "always", refs: 3}}}
	// when_changed with the variable reaching different places of the callee
	for _, flow := range []string{"cmd", "env", "subcall", "dynvar", "defer", "same", "same_silent"} {
		s := &T{Name: "s", Run: "when_changed"}
		dt := &c06Task{mode: "when_changed", keys: []string{"1", "2"}, flow: flow}
		tasks := []*T{}
		switch flow {
		case "cmd":
			s.Cmds = []C{{Extra: "{{.X}}"}, P()}
		case "env":
			s.Env = [][2]string{{"E", "{{.X}}"}}
			s.Cmds = []C{{ShExtra: "$E"}, P()}
		case "subcall":
			s.Cmds = []C{P(), {Call: &Ref{Task: "leaf", VP: "=", Vars: [][2]string{{"Y", "{{.X}}"}}}}}
			tasks = append(tasks, &T{Name: "leaf", Cmds: []C{{Extra: "{{.Y}}"}}})
			dt.keyTask, dt.keyEntry = "leaf", 0
		case "defer":
			// the variable only reaches a deferred command (rendered when it runs, not when the task is compiled)
			s.Cmds = []C{{Defer: true, Extra: "{{.X}}"}, P()}
		case "dynvar":
			s.RawLines = []string{"vars:", "  Y: {sh: 'echo {{.X}}'}"}
			s.Cmds = []C{{Extra: "{{.Y}}"}, P()}
		case "same", "same_silent":
			// (same_silent: some of the references are marked silent; that is not a variable)
			s.Cmds = []C{{Extra: "{{.X}}"}, P()}
			dt.keys = []string{"1"}
		}
		x2 := "2"
		if flow == "same" || flow == "same_silent" {
			x2 = "1"
		}
		ref := func(x string) Ref { return Ref{Task: "s", VP: "=", Vars: [][2]string{{"X", x}}} }
		r1, r2, r3 := ref("1"), ref(x2), ref("1")
		sil := flow == "same_silent"
		r1.Silent = sil
		tasks = append([]*T{
			{Name: "root", Deps: []Ref{D("a"), D("b")}, Cmds: []C{{Call: &r3}, P()}},
			{Name: "a", Deps: []Ref{r1}, Cmds: []C{P()}},
			{Name: "b", Cmds: []C{{Call: &r2, Silent: sil}, P()}},
			s,
		}, tasks...)
		m["when_changed-"+flow] = &c06Spec{pg: &Prog{Tasks: tasks}, dedup: map[string]*c06Task{"s": dt}}
	}
	// values swapped between two variables that reach the callee only through its env
	{
		s := &T{Name: "s", Run: "when_changed", Env: [][2]string{{"E1", "{{.FROM}}"}, {"E2", "{{.TO}}"}}, Cmds: []C{{ShExtra: "$E1-$E2"}, P()}}
		ref := func(a, b string) Ref { return Ref{Task: "s", VP: "=", Vars: [][2]string{{"FROM", a}, {"TO", b}}} }
		r1, r2 := ref("a", "b"), ref("b", "a")
		m["when_changed-swapped-values-env"] = &c06Spec{pg: &Prog{Tasks: []*T{
			{Name: "root", Deps: []Ref{D("x")}, Cmds: []C{{Call: &r2}, P()}},
			{Name: "x", Cmds: []C{{Call: &r1}, P()}},
			s,
		}}, dedup: map[string]*c06Task{"s": {mode: "when_changed", keys: []string{"a-b", "b-a"}, flow: "swapped_env"}}}
	}
	// a run-once dep cancelled mid-way by a failing sibling, the invocation carries on
	// (ignore_error) and references the task again: still at most one execution
	m["once-cancelled-then-referenced"] = &c06Spec{pg: &Prog{Tasks: []*T{
		{Name: "root", IgnoreError: true, Cmds: []C{Call("p"), CallS("s", "="), P()}},
		{Name: "p", Deps: []Ref{DS("s", "="), D("x")}, Cmds: []C{P()}},
		{Name: "x", Cmds: []C{P(), F()}},
		{Name: "s", Run: "once", Cmds: []C{P(), P(), P()}},
	}}, dedup: map[string]*c06Task{"s": {mode: "once", refs: 0}}}
	return m
}

// c06IncludeUnit: the Taskfile is written by hand (an include), the program model describes the
// merged view and serves the oracles only.
func c06IncludeUnit(tier string) *Unit {
	line := func(task string) string {
		return "      - printf '%s\\n' 'P|" + task + "|0|=|'\n"
	}
	files := map[string]string{
		"Taskfile.yml": "version: '3'\nincludes:\n  inc: ./inc.yml\ntasks:\n  root:\n    deps: ['inc:build:assets', 'inc:lint:assets', 'inc:other']\n    cmds:\n      - printf '%s\\n' 'P|root|0|@|'\n",
		"inc.yml": "version: '3'\ntasks:\n  'build:assets':\n    run: once\n    cmds:\n" + line("inc:build:assets") +
			"  'lint:assets':\n    run: once\n    cmds:\n" + line("inc:lint:assets") +
			"  other:\n    run: once\n    deps: ['build:assets']\n    cmds:\n" + line("inc:other"),
	}
	pg := &Prog{Tasks: []*T{
		{Name: "root", Deps: []Ref{DS("inc:build:assets", "="), DS("inc:lint:assets", "="), DS("inc:other", "=")}, Cmds: []C{P()}},
		{Name: "inc:build:assets", Run: "once", Cmds: []C{P()}},
		{Name: "inc:lint:assets", Run: "once", Cmds: []C{P()}},
		{Name: "inc:other", Run: "once", Deps: []Ref{DS("inc:build:assets", "=")}, Cmds: []C{P()}},
	}}
	sp := &c06Spec{pg: pg, dedup: map[string]*c06Task{
		"inc:build:assets": {mode: "once", refs: 2}, "inc:lint:assets": {mode: "once", refs: 1}, "inc:other": {mode: "once", refs: 1}}}
	sc := &vlab.Scenario{Name: "once-in-include-same-last-segment/cinf", Files: files, Spec: pg,
		Calls: []vlab.CallSpec{{Task: "root", Vars: [][2]string{{"VP", "@"}}}}}
	bound := 2
	if tier == "thorough" {
		bound = 3
	}
	return &Unit{Name: sc.Name, Sc: sc, Bound: bound, Prune: true, Check: both(c06Check(sp), c01Check(pg)), Weight: 4}
}

// c06IncludedDefaultUnit: an included Taskfile declares a top-level "run: once"; the root
// Taskfile declares none, so its own tasks keep the default (always): a root task referenced
// twice runs twice.
func c06IncludedDefaultUnit(tier string) *Unit {
	files := map[string]string{
		"Taskfile.yml": "version: '3'\nincludes:\n  inc: ./inc.yml\ntasks:\n  root:\n    deps: ['inc:x']\n    cmds:\n      - task: t\n        vars: {VP: '{{.VP}}>root.c0'}\n      - task: t\n        vars: {VP: '{{.VP}}>root.c1'}\n" +
			"  t:\n    cmds:\n      - printf '%s\\n' 'P|t|0|{{.VP}}|'\n",
		"inc.yml": "version: '3'\nrun: once\ntasks:\n  x:\n    cmds:\n      - printf '%s\\n' 'P|inc:x|0|=|'\n",
	}
	pg := &Prog{Tasks: []*T{
		{Name: "root", Deps: []Ref{DS("inc:x", "=")}, Cmds: []C{Call("t"), Call("t")}},
		{Name: "t", Cmds: []C{P()}},
		{Name: "inc:x", Run: "once", Cmds: []C{P()}},
	}}
	sp := &c06Spec{pg: pg, dedup: map[string]*c06Task{"t": {mode: "always", refs: 2}}}
	sc := &vlab.Scenario{Name: "included-file-declares-run-once-root-default-stays-always/cinf", Files: files, Spec: pg,
		Calls: []vlab.CallSpec{{Task: "root", Vars: [][2]string{{"VP", "@"}}}}}
	return &Unit{Name: sc.Name, Sc: sc, Bound: 1, Prune: true, Check: c06Check(sp), Weight: 2}
}

func c06Units(tier string) []*Unit {
	var us []*Unit
	us = append(us, c06IncludeUnit(tier), c06IncludedDefaultUnit(tier), c06SpellingsUnit(), c06SameDepTwiceUnit(), c06NonIdempotentDynVarUnit())
	us = append(us, c06NestedChainUnits()...)
	specs := c06Specs()
	var names []string
	for k := range specs {
		names = append(names, k)
	}
	sort.Strings(names)
	for _, name := range names {
		sp := specs[name]
		concs := []int{0, 1}
		if tier == "thorough" {
			concs = []int{0, 1, 2}
		}
		for _, conc := range concs {
			bound, shards := boundFor(tier, len(sp.pg.Tasks), conc)
			if bound < 0 {
				continue
			}
			if tier != "thorough" && conc == 1 && !strings.HasPrefix(name, "once") {
				continue
			}
			sc := scen(fmt.Sprintf("%s/c%s", name, concName(conc)), sp.pg, vlab.Options{Concurrency: conc}, "root")
			check := both(c06Check(sp), c01Check(sp.pg), c02Check(sp.pg))
			if strings.HasPrefix(name, "when_changed") {
				// the instance "s@=" legitimately executes once per variable set: the per-instance
				// ordering rule of C02 does not apply to it
				check = both(c06Check(sp), c01Check(sp.pg))
			}
			us = append(us, &Unit{Name: sc.Name, Sc: sc, Bound: bound, Prune: true, Check: check, Weight: len(sp.pg.Tasks), Shards: shards})
		}
	}
	return us
}

// One when_changed task of the root Taskfile, referenced with identical variables by its plain
// name (root) and as a ':'-prefixed root reference (included Taskfile): one execution.
func c06SpellingsUnit() *Unit {
	files := map[string]string{
		"Taskfile.yml": "version: '3'\nincludes:\n  inc: ./inc.yml\ntasks:\n  root:\n    cmds:\n      - task: gen\n        vars: {X: '1'}\n      - task: inc:user\n      - task: gen\n        vars: {X: '1'}\n" +
			"  gen:\n    run: when_changed\n    cmds:\n      - printf '%s\\n' 'P|gen|0|=|X={{.X}}'\n",
		"inc.yml": "version: '3'\ntasks:\n  user:\n    deps:\n      - task: ':gen'\n        vars: {X: '1'}\n    cmds:\n      - task: ':gen'\n        vars: {X: '1'}\n      - printf '%s\\n' 'P|inc:user|1|@|'\n",
	}
	sc := &vlab.Scenario{Name: "when_changed-referenced-by-name-and-as-root-reference/cinf", Files: files, Calls: []vlab.CallSpec{{Task: "root"}}}
	return &Unit{Name: sc.Name, Sc: sc, Bound: 1, Prune: true, Weight: 1, Check: func(x *vlab.Exec) []vlab.Violation {
		out := generic("C06", x)
		n := 0
		for _, e := range vlab.ParseTrace(x.Trace) {
			if e.K == 'S' && e.Task == "gen" {
				n++
			}
		}
		if n > 1 {
			out = append(out, vlab.V("C06", "when_changed_repeated", "name_and_root_reference", fmt.Sprintf("run: when_changed task gen executed %d times for the single variable set X=1 (referenced as gen and as :gen)", n)))
		}
		if x.Code == 0 && n == 0 {
			out = append(out, vlab.V("C06", "when_changed_missing_execution", "name_and_root_reference", "gen never executed"))
		}
		if x.Code != 0 {
			out = append(out, vlab.V("C06", "spurious_failure", "name_and_root_reference", fmt.Sprintf("status %d (%s)", x.Code, firstN(x.ErrStr, 100))))
		}
		return out
	}}
}

// A task with the default run mode listed twice in the deps of one task with equal variables
// (and as two items of a for loop): it executes once per reference.
func c06SameDepTwiceUnit() *Unit {
	files := map[string]string{
		"Taskfile.yml": "version: '3'\ntasks:\n  root:\n    deps: [s, s]\n    cmds:\n      - task: looped\n  looped:\n    deps:\n      - for: [x, x]\n        task: s\n  s:\n    cmds:\n      - printf '%s\\n' 'P|s|0|=|'\n",
	}
	sc := &vlab.Scenario{Name: "always-task-listed-twice-in-deps/cinf", Files: files, Calls: []vlab.CallSpec{{Task: "root"}}}
	return &Unit{Name: sc.Name, Sc: sc, Bound: 1, Prune: true, Weight: 1, Check: func(x *vlab.Exec) []vlab.Violation {
		out := generic("C06", x)
		n := 0
		for _, e := range vlab.ParseTrace(x.Trace) {
			if e.K == 'S' && e.Task == "s" {
				n++
			}
		}
		if x.Code != 0 || n != 4 {
			out = append(out, vlab.V("C06", "always_count", "same_dep_twice", fmt.Sprintf("task s (default run mode) is referenced 4 times (twice in deps, two equal loop items) and executed %d times (status %d %s)", n, x.Code, firstN(x.ErrStr, 80))))
		}
		return out
	}}
}

// Three nested run: once executions (a > b > c) and, below the innermost, two run: once
// siblings of which the first calls the second: every task executes once and the invocation
// succeeds (the record of "which shared executions am I nested in" of one sibling must not leak
// into the other's).
func c06NestedChainUnits() []*Unit {
	var us []*Unit
	pr := func(task string) string { return "      - printf '%s\\n' 'P|" + task + "|0|=|'\n" }
	// depth = number of nested run: once executions above the two siblings (the slice that records
	// them grows at 1, 2 and 4 entries)
	for depth := 1; depth <= 5; depth++ {
		tf := "version: '3'\nrun: once\ntasks:\n  root:\n    run: always\n    deps: [n1]\n    cmds:\n" + pr("root")
		names := []string{"root", "d", "e"}
		for i := 1; i <= depth; i++ {
			deps := fmt.Sprintf("[n%d]", i+1)
			if i == depth {
				deps = "[d, e]"
			}
			tf += fmt.Sprintf("  n%d:\n    deps: %s\n    cmds:\n", i, deps) + pr(fmt.Sprintf("n%d", i))
			names = append(names, fmt.Sprintf("n%d", i))
		}
		tf += "  d:\n    cmds:\n" + pr("d") + "      - task: e\n" + "  e:\n    cmds:\n" + pr("e")
		sc := &vlab.Scenario{Name: fmt.Sprintf("once-nested-%d-deep-sibling-calls-sibling/cinf", depth), Files: map[string]string{"Taskfile.yml": tf}, Calls: []vlab.CallSpec{{Task: "root"}}}
		us = append(us, &Unit{Name: sc.Name, Sc: sc, Bound: 1, Prune: true, Weight: 2, Check: func(x *vlab.Exec) []vlab.Violation {
			out := generic("C06", x)
			n := map[string]int{}
			for _, e := range vlab.ParseTrace(x.Trace) {
				if e.K == 'S' && e.Task != "" {
					n[e.Task]++
				}
			}
			for _, t := range names {
				if n[t] > 1 {
					out = append(out, vlab.V("C06", "once_ran_more_than_once", "nested_chain", fmt.Sprintf("run: once task %s executed %d times", t, n[t])))
				}
				if x.Code == 0 && n[t] == 0 {
					out = append(out, vlab.V("C06", "once_never_ran", "nested_chain", fmt.Sprintf("invocation succeeded but run: once task %s never executed", t)))
				}
			}
			if x.Code != 0 && !x.Res.Deadlock && !x.Res.Horizon {
				out = append(out, vlab.V("C06", "spurious_failure", "nested_chain", fmt.Sprintf("no command fails, yet the invocation ended with status %d (%s)", x.Code, firstN(x.ErrStr, 120))))
			}
			return out
		}})
	}
	return us
}

// A run: when_changed task with a dynamic variable whose command is not idempotent (a counter
// kept in a file), referenced twice in parallel with identical call variables: the variable is
// evaluated once per invocation, so there is one variable set and one execution.
func c06NonIdempotentDynVarUnit() *Unit {
	tf := "version: '3'\ntasks:\n  root:\n    deps: [a, b]\n    cmds:\n      - printf '%s\\n' 'P|root|0|@|'\n" +
		"  a:\n    cmds:\n      - task: s\n        vars: {X: '1'}\n  b:\n    cmds:\n      - task: s\n        vars: {X: '1'}\n" +
		"  s:\n    run: when_changed\n    vars:\n      N: {sh: 'n=$(cat counter 2>/dev/null || echo 0); echo $((n+1)) > counter; echo $n'}\n    cmds:\n      - printf '%s\\n' 'P|s|0|=|N={{.N}}'\n"
	sc := &vlab.Scenario{Name: "when_changed-non-idempotent-dynamic-variable/cinf", Files: map[string]string{"Taskfile.yml": tf}, UsesFS: true, Calls: []vlab.CallSpec{{Task: "root"}}}
	return &Unit{Name: sc.Name, Sc: sc, Bound: 1, Prune: false, Weight: 3, Check: func(x *vlab.Exec) []vlab.Violation {
		out := generic("C06", x)
		n := 0
		var keys []string
		for _, e := range vlab.ParseTrace(x.Trace) {
			if e.K == 'S' && e.Task == "s" {
				n++
				keys = append(keys, e.Extra)
			}
		}
		if n > 1 {
			out = append(out, vlab.V("C06", "when_changed_repeated", "non_idempotent_dynvar", fmt.Sprintf("run: when_changed task s executed %d times (%v) for identical call variables: its dynamic variable was evaluated more than once", n, keys)))
		}
		if x.Code == 0 && n == 0 {
			out = append(out, vlab.V("C06", "when_changed_missing_execution", "non_idempotent_dynvar", "s never executed"))
		}
		if x.Code != 0 && !x.Res.Deadlock && !x.Res.Horizon {
			out = append(out, vlab.V("C06", "spurious_failure", "non_idempotent_dynvar", fmt.Sprintf("status %d (%s)", x.Code, firstN(x.ErrStr, 100))))
		}
		return out
	}}
}

// progMayFail: some command of the program exits non-zero, or a task carries a guard.
func progMayFail(pg *Prog) bool {
	for _, t := range pg.Tasks {
		if len(t.Requires)+len(t.RequiresEnum)+len(t.Preconditions)+len(t.Prompt) > 0 || t.Internal || len(t.Platforms) > 0 {
			return true
		}
		for _, c := range t.Cmds {
			if c.Exit != 0 || c.ExitVar != "" {
				return true
			}
		}
	}
	return false
}
