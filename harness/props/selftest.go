package props

import (
	"fmt"
	"sort"
	"strings"

	"github.com/go-task/task/v3/zverif/vatomic"
	"github.com/go-task/task/v3/zverif/vlab"
	"github.com/go-task/task/v3/zverif/vsched"
	"github.com/go-task/task/v3/zverif/vsync"
)

// SELF: the scheduler shims checked against small programs whose complete outcome sets are
// known. Every allowed outcome must be witnessed (the explorer reaches it) and nothing else
// may occur (the shim does not invent behaviour); deadlocks must be found exactly where the
// real primitives would block forever.

func init() { registry["SELF"] = selfUnits }

type selfCase struct {
	name     string
	bound    int
	body     func() string // runs as thread 0; returns the observable result
	allowed  []string
	deadlock bool // every execution must end in a detected deadlock
	mayLock  bool // some executions deadlock (allowed), the others give an allowed result
}

func selfUnits(tier string) []*Unit {
	var us []*Unit
	for _, c := range selfCases() {
		c := c
		sc := &vlab.Scenario{Name: "self/" + c.name, Files: map[string]string{}}
		sc.BodyFn = func(dir string, x *vlab.Exec, raw *vlab.RawWriter) {
			x.Aux["r"] = c.body()
		}
		u := &Unit{Name: sc.Name, Sc: sc, Bound: c.bound, Prune: false, Weight: 1, ReqProp: "SELF",
			ReqMsg: "an outcome the real primitives allow was not reached by the exploration"}
		u.Check = func(x *vlab.Exec) []vlab.Violation {
			var out []vlab.Violation
			if x.Res.Panic != "" {
				return append(out, vlab.V("SELF", "panic", c.name, firstN(x.Res.Panic, 300)))
			}
			if x.Res.Deadlock {
				if !c.deadlock && !c.mayLock {
					out = append(out, vlab.V("SELF", "spurious_deadlock", c.name, fmt.Sprint(x.Res.Blocked)))
				}
				return out
			}
			if c.deadlock {
				return append(out, vlab.V("SELF", "deadlock_missed", c.name, "the program blocks forever with real primitives but the execution finished with "+x.Aux["r"]))
			}
			ok := false
			for _, a := range c.allowed {
				ok = ok || a == x.Aux["r"]
			}
			if !ok {
				out = append(out, vlab.V("SELF", "impossible_outcome", c.name, fmt.Sprintf("result %q is not among %q", x.Aux["r"], c.allowed)))
			}
			return out
		}
		u.Goal = func(x *vlab.Exec) []string {
			if x.Res.Deadlock {
				return []string{"deadlock"}
			}
			return []string{"r=" + x.Aux["r"]}
		}
		for _, a := range c.allowed {
			u.Required = append(u.Required, "r="+a)
		}
		if c.deadlock || c.mayLock {
			u.Required = append(u.Required, "deadlock")
			u.NoFree = true
		}
		us = append(us, u)
	}
	return us
}

func selfCases() []selfCase {
	join := func(xs []string) string { return strings.Join(xs, "") }
	return []selfCase{
		{name: "lost-update", bound: 2, allowed: []string{"1", "2"}, body: func() string {
			var mu vsched.Mutex
			n := 0
			var wg vsched.WaitGroup
			for i := 0; i < 2; i++ {
				wg.Add(1)
				vsched.Go(func() {
					defer wg.Done()
					mu.Lock()
					v := n
					mu.Unlock()
					mu.Lock()
					n = v + 1
					mu.Unlock()
				})
			}
			wg.Wait()
			return fmt.Sprint(n)
		}},
		{name: "typed-atomic-load-then-store", bound: 2, allowed: []string{"1", "2"}, body: func() string {
			var n vatomic.Int32
			var wg vsched.WaitGroup
			for i := 0; i < 2; i++ {
				wg.Add(1)
				vsched.Go(func() {
					defer wg.Done()
					v := n.Load()
					n.Store(v + 1)
				})
			}
			wg.Wait()
			return fmt.Sprint(n.Load())
		}},
		{name: "sync-map-check-then-act", bound: 2, allowed: []string{"1", "2"}, body: func() string {
			var m vsync.Map
			var runs vatomic.Int32
			var wg vsched.WaitGroup
			for i := 0; i < 2; i++ {
				wg.Add(1)
				vsched.Go(func() {
					defer wg.Done()
					if _, ok := m.Load("k"); !ok {
						m.Store("k", true)
						runs.Add(1)
					}
				})
			}
			wg.Wait()
			return fmt.Sprint(runs.Load())
		}},
		{name: "sync-map-load-or-store", bound: 2, allowed: []string{"1"}, body: func() string {
			var m vsync.Map
			var runs vatomic.Int32
			var wg vsched.WaitGroup
			for i := 0; i < 2; i++ {
				wg.Add(1)
				vsched.Go(func() {
					defer wg.Done()
					if _, loaded := m.LoadOrStore("k", true); !loaded {
						runs.Add(1)
					}
				})
			}
			wg.Wait()
			return fmt.Sprint(runs.Load())
		}},
		{name: "unbuffered-two-senders", bound: 2, allowed: []string{"ab", "ba"}, body: func() string {
			ch := make(chan string)
			vsched.Go(func() { vsched.Send(ch, "a") })
			vsched.Go(func() { vsched.Send(ch, "b") })
			return vsched.Recv(ch) + vsched.Recv(ch)
		}},
		{name: "unbuffered-send-without-receiver", bound: 1, deadlock: true, body: func() string {
			ch := make(chan string)
			vsched.Send(ch, "a")
			return "sent"
		}},
		{name: "unbuffered-close-wakes-receivers", bound: 2, allowed: []string{"closed,closed"}, body: func() string {
			ch := make(chan struct{})
			var mu vsched.Mutex
			var got []string
			var wg vsched.WaitGroup
			for i := 0; i < 2; i++ {
				wg.Add(1)
				vsched.Go(func() {
					defer wg.Done()
					_, ok := vsched.RecvOK(ch)
					mu.Lock()
					if ok {
						got = append(got, "value")
					} else {
						got = append(got, "closed")
					}
					mu.Unlock()
				})
			}
			vsched.Close(ch)
			wg.Wait()
			return strings.Join(got, ",")
		}},
		{name: "select-two-ready", bound: 1, allowed: []string{"0", "1"}, body: func() string {
			a, b := make(chan int, 1), make(chan int, 1)
			vsched.Send(a, 1)
			vsched.Send(b, 2)
			r := vsched.Select(false, vsched.CaseRecv((<-chan int)(a)), vsched.CaseRecv((<-chan int)(b)))
			return fmt.Sprint(r.I)
		}},
		{name: "select-default-vs-late-send", bound: 2, allowed: []string{"default", "got7"}, body: func() string {
			ch := make(chan int, 1)
			vsched.Go(func() { vsched.Send(ch, 7) })
			vsched.Yield("self")
			r := vsched.Select(true, vsched.CaseRecv((<-chan int)(ch)))
			if r.I == 1 {
				return "default"
			}
			return fmt.Sprint("got", vsched.SelRecv(r, (<-chan int)(ch)))
		}},
		{name: "select-send-or-cancel", bound: 2, allowed: []string{"sent", "cancelled"}, body: func() string {
			sem := make(chan struct{}, 1)
			vsched.Send(sem, struct{}{}) // full
			ctx, cancel := vsched.WithCancel(vsched.Background())
			vsched.Go(func() { vsched.Recv((<-chan struct{})(sem)) })
			vsched.Go(cancel)
			r := vsched.Select(false, vsched.CaseSend((chan<- struct{})(sem), struct{}{}), vsched.CaseRecv(ctx.Done()))
			if r.I == 0 {
				return "sent"
			}
			return "cancelled"
		}},
		{name: "select-unbuffered-rendezvous", bound: 2, allowed: []string{"a", "b"}, body: func() string {
			a, b := make(chan string), make(chan string)
			vsched.Go(func() {
				r := vsched.Select(false, vsched.CaseSend((chan<- string)(a), "a"), vsched.CaseSend((chan<- string)(b), "b"))
				_ = r
			})
			r := vsched.Select(false, vsched.CaseRecv((<-chan string)(a)), vsched.CaseRecv((<-chan string)(b)))
			if r.I == 0 {
				return vsched.SelRecv(r, (<-chan string)(a))
			}
			return vsched.SelRecv(r, (<-chan string)(b))
		}},
		{name: "waitgroup-joins-all", bound: 2, allowed: []string{"3"}, body: func() string {
			var wg vsched.WaitGroup
			var mu vsched.Mutex
			n := 0
			for i := 0; i < 3; i++ {
				wg.Add(1)
				vsched.Go(func() { mu.Lock(); n++; mu.Unlock(); wg.Done() })
			}
			wg.Wait()
			return fmt.Sprint(n)
		}},
		{name: "waitgroup-missing-done", bound: 1, deadlock: true, body: func() string {
			var wg vsched.WaitGroup
			wg.Add(2)
			vsched.Go(func() { wg.Done() })
			wg.Wait()
			return "joined"
		}},
		{name: "once-runs-once-and-blocks-latecomers", bound: 2, allowed: []string{"1:11"}, body: func() string {
			var once vsched.Once
			var mu vsched.Mutex
			runs, seen := 0, ""
			var wg vsched.WaitGroup
			for i := 0; i < 2; i++ {
				wg.Add(1)
				vsched.Go(func() {
					defer wg.Done()
					once.Do(func() {
						vsched.Yield("inside-once")
						mu.Lock()
						runs++
						mu.Unlock()
					})
					mu.Lock()
					seen += fmt.Sprint(runs) // a latecomer must not get past Do before f has returned
					mu.Unlock()
				})
			}
			wg.Wait()
			return fmt.Sprint(runs, ":", seen)
		}},
		{name: "cond-producer-consumer", bound: 2, allowed: []string{"item"}, body: func() string {
			var mu vsched.Mutex
			c := vsched.NewCond(&mu)
			queue := ""
			vsched.Go(func() {
				mu.Lock()
				queue = "item"
				mu.Unlock()
				c.Signal()
			})
			mu.Lock()
			for queue == "" {
				c.Wait()
			}
			r := queue
			mu.Unlock()
			return r
		}},
		{name: "cond-signal-before-wait-is-lost", bound: 2, mayLock: true, allowed: []string{"woken"}, body: func() string {
			var mu vsched.Mutex
			c := vsched.NewCond(&mu)
			vsched.Go(func() { c.Signal() })
			mu.Lock()
			c.Wait() // no predicate loop: a signal that came first is lost
			mu.Unlock()
			return "woken"
		}},
		{name: "errgroup-limit-1", bound: 2, allowed: []string{"max1:ab"}, body: func() string {
			var g vsched.Group
			g.SetLimit(1)
			var mu vsched.Mutex
			cur, max := 0, 0
			var order []string
			for _, n := range []string{"a", "b"} {
				n := n
				g.Go(func() error {
					mu.Lock()
					cur++
					if cur > max {
						max = cur
					}
					order = append(order, n)
					mu.Unlock()
					vsched.Yield("work")
					mu.Lock()
					cur--
					mu.Unlock()
					return nil
				})
			}
			g.Wait()
			return fmt.Sprintf("max%d:%s", max, join(order))
		}},
		{name: "mutex-ab-ba-deadlock", bound: 2, mayLock: true, allowed: []string{"done"}, body: func() string {
			var a, b vsched.Mutex
			var wg vsched.WaitGroup
			wg.Add(2)
			vsched.Go(func() { a.Lock(); b.Lock(); b.Unlock(); a.Unlock(); wg.Done() })
			vsched.Go(func() { b.Lock(); a.Lock(); a.Unlock(); b.Unlock(); wg.Done() })
			wg.Wait()
			return "done"
		}},
		{name: "range-over-closed-buffered", bound: 1, allowed: []string{"12"}, body: func() string {
			ch := make(chan int, 2)
			vsched.Send(ch, 1)
			vsched.Send(ch, 2)
			vsched.Close(ch)
			s := ""
			for {
				v, ok := vsched.RecvOK((<-chan int)(ch))
				if !ok {
					break
				}
				s += fmt.Sprint(v)
			}
			return s
		}},
	}
}

var _ = sort.Strings
