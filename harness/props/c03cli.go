package props

import (
	"fmt"
	"os"
	"os/exec"
	"path/filepath"
	"time"

	"github.com/go-task/task/v3/zverif/vlab"
)

// RunCLI runs the real task binary (built from the working tree without any instrumentation).
func RunCLI(dir string, env []string, stdin string, args ...string) (stdout, stderr string, code int) {
	bin := os.Getenv("VERIF_TASK_BIN")
	c := exec.Command(bin, args...)
	c.Dir = dir
	c.Env = append([]string{"PATH=/usr/bin:/bin", "HOME=" + dir, "NO_COLOR=1"}, env...)
	var so, se limitedBuf
	c.Stdout, c.Stderr = &so, &se
	if stdin != "" {
		c.Stdin = stringsReader(stdin)
	}
	done := make(chan error, 1)
	if err := c.Start(); err != nil {
		return "", err.Error(), -1
	}
	go func() { done <- c.Wait() }()
	select {
	case err := <-done:
		if err != nil {
			if ee, ok := err.(*exec.ExitError); ok {
				return so.String(), se.String(), ee.ExitCode()
			}
			return so.String(), se.String() + err.Error(), -1
		}
		return so.String(), se.String(), 0
	case <-time.After(60 * time.Second):
		c.Process.Kill()
		<-done
		return so.String(), se.String(), -2 // horizon
	}
}

// c03CLIUnits: exit-status mapping through the real CLI binary for every exit code 1..255,
// every failure position, with and without --exit-code (sequential, no schedule involved).
func c03CLIUnits(tier string) []*Unit {
	positions := []struct {
		name string
		pg   func(code int) *Prog
	}{
		{"direct", func(c int) *Prog { return &Prog{Tasks: []*T{{Name: "root", Cmds: []C{P(), Fx(c), P()}}}} }},
		{"dep", func(c int) *Prog {
			return &Prog{Tasks: []*T{{Name: "root", Deps: []Ref{D("a")}, Cmds: []C{P()}}, {Name: "a", Cmds: []C{Fx(c)}}}}
		}},
		{"dep-of-dep", func(c int) *Prog {
			return &Prog{Tasks: []*T{{Name: "root", Deps: []Ref{D("a")}, Cmds: []C{P()}}, {Name: "a", Deps: []Ref{D("b")}, Cmds: []C{P()}}, {Name: "b", Cmds: []C{Fx(c)}}}}
		}},
		{"nested-call", func(c int) *Prog {
			return &Prog{Tasks: []*T{{Name: "root", Cmds: []C{Call("a"), P()}}, {Name: "a", Cmds: []C{Call("b"), P()}}, {Name: "b", Cmds: []C{Fx(c)}}}}
		}},
		{"shared-once", func(c int) *Prog {
			return &Prog{Tasks: []*T{{Name: "root", Deps: []Ref{D("a")}, Cmds: []C{CallS("s", "="), P()}}, {Name: "a", Deps: []Ref{DS("s", "=")}}, {Name: "s", Run: "once", Cmds: []C{Fx(c)}}}}
		}},
		{"ignored-cmd", func(c int) *Prog {
			return &Prog{Tasks: []*T{{Name: "root", Cmds: []C{{Exit: c, IgnoreError: true}, P()}}}}
		}},
		{"ignored-task", func(c int) *Prog {
			return &Prog{Tasks: []*T{{Name: "root", Cmds: []C{Call("a"), P()}}, {Name: "a", IgnoreError: true, Cmds: []C{Fx(c), P()}}}}
		}},
	}
	var us []*Unit
	for _, pos := range positions {
		for _, xflag := range []bool{false, true} {
			pos, xflag := pos, xflag
			name := fmt.Sprintf("cli-status/%s/x=%v", pos.name, xflag)
			us = append(us, &Unit{Name: name, Weight: 2, Custom: func(u *Unit, dir string, deadline time.Time) *vlab.UnitResult {
				res := &vlab.UnitResult{SigCounts: map[string]int{}, Extra: map[string]any{}}
				outcomes := map[string]bool{}
				step := 1
				if tier != "thorough" {
					step = 1
				}
				n := 0
				for code := 1; code <= 255; code += step {
					pg := pos.pg(code)
					os.WriteFile(filepath.Join(dir, "Taskfile.yml"), []byte(pg.YAML()), 0o644)
					args := []string{"root", "VP=@"}
					if xflag {
						args = append([]string{"-x"}, args...)
					}
					so, se, rc := RunCLI(dir, nil, "", args...)
					n++
					ignored := pos.name == "ignored-cmd" || pos.name == "ignored-task"
					want := 201
					if xflag {
						want = code
					}
					if ignored {
						want = 0
					}
					outcomes[fmt.Sprintf("%s rc==want:%v", pos.name, rc == want)] = true
					outcomes[fmt.Sprintf("rc=%d", rc)] = true
					if rc != want {
						sig := fmt.Sprintf("got%d:want%d", rc, want)
						if xflag && !ignored {
							sig = fmt.Sprintf("got%d:want_own_code", rc)
							if rc != 201 && rc != 1 && rc != 0 {
								sig = "got_other:want_own_code"
							}
						}
						v := vlab.V("C03", "cli_status", pos.name+fmt.Sprintf(":x=%v:", xflag)+sig,
							fmt.Sprintf("position %s, exit code %d, --exit-code=%v: CLI status %d, expected %d; stderr: %s", pos.name, code, xflag, rc, want, firstN(se, 200)))
						v.Scenario = name
						v.Input = map[string]any{"taskfile": pg.YAML(), "args": args}
						res.SigCounts[v.Sig]++
						if res.SigCounts[v.Sig] == 1 {
							res.Violations = append(res.Violations, v)
						}
					}
					if len(res.Stats.SampleTraces) < 1 {
						res.Stats.SampleTraces = append(res.Stats.SampleTraces, []string{fmt.Sprintf("task %v -> rc=%d stdout=%q", args, rc, firstN(so, 80))})
					}
				}
				res.Stats = vlab.Stats{Scenario: name, Execs: n, States: n, Transitions: n, Outcomes: len(outcomes), Exhaustive: true, Completed: 0, SampleTraces: res.Stats.SampleTraces}
				return res
			}})
		}
	}
	return us
}

func firstN(s string, n int) string {
	if len(s) > n {
		return s[:n]
	}
	return s
}
