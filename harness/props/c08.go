package props

import (
	"context"
	"fmt"
	"io"
	"os"
	"path/filepath"
	"reflect"
	"sort"
	"strings"
	"time"

	task "github.com/go-task/task/v3"
	"github.com/go-task/task/v3/taskfile/ast"
	"github.com/go-task/task/v3/zverif/vlab"
)

func init() { registry["C08"] = c08Units }

func c08Line(origin, name string) string {
	return "      - printf '%s\\n' \"T=" + origin + ":" + name + " PWD=$(basename \"$PWD\") IV={{.IV}}\"\n"
}

func c08Write(dir string, files map[string]string) {
	os.RemoveAll(dir)
	os.MkdirAll(dir, 0o755)
	for rel, c := range files {
		p := filepath.Join(dir, rel)
		os.MkdirAll(filepath.Dir(p), 0o755)
		os.WriteFile(p, []byte(c), 0o644)
	}
}

// c08Run loads dir and runs one task name in-process; returns the printed lines, the exit
// status the CLI would give, a recovered panic.
func c08Run(dir, name string) (lines []string, code int, errs string, panicked string) {
	defer func() {
		if r := recover(); r != nil {
			panicked = fmt.Sprint(r)
		}
	}()
	w := &captureW{}
	e := task.NewExecutor(task.WithDir(dir), task.WithStdout(w), task.WithStderr(io.Discard), task.WithSilent(true), task.WithVersionCheck(true))
	if err := e.Setup(); err != nil {
		return nil, vlab.ExitCode(err, false), err.Error(), ""
	}
	err := e.Run(context.Background(), &task.Call{Task: name})
	out := strings.TrimRight(w.b.String(), "\n")
	if out != "" {
		lines = strings.Split(out, "\n")
	}
	if err != nil {
		errs = err.Error()
	}
	return lines, vlab.ExitCode(err, false), errs, ""
}

type c08Opts struct {
	dir, internal, flatten, aliases, excludes, vars bool
}

func (o c08Opts) String() string {
	var s []string
	for _, kv := range []struct {
		k string
		v bool
	}{{"dir", o.dir}, {"internal", o.internal}, {"flatten", o.flatten}, {"aliases", o.aliases}, {"excludes", o.excludes}, {"vars", o.vars}} {
		if kv.v {
			s = append(s, kv.k)
		}
	}
	return "{" + strings.Join(s, ",") + "}"
}

func (o c08Opts) yaml(ind, file, ns string) string {
	s := ind + ns + ":\n" + ind + "  taskfile: " + file + "\n"
	if o.dir {
		s += ind + "  dir: ./sub\n"
	}
	if o.internal {
		s += ind + "  internal: true\n"
	}
	if o.flatten {
		s += ind + "  flatten: true\n"
	}
	if o.aliases {
		s += ind + "  aliases: [x, y]\n"
	}
	if o.excludes {
		s += ind + "  excludes: [e]\n"
	}
	if o.vars {
		s += ind + "  vars: {IV: yes-" + ns + "}\n"
	}
	return s
}

// depth-1: every subset of include options
func c08OptionsUnit(tier string) *Unit {
	name := "single-include/all-option-subsets"
	return &Unit{Name: name, Weight: 6, Custom: func(u *Unit, dir string, deadline time.Time) *vlab.UnitResult {
		res := &vlab.UnitResult{SigCounts: map[string]int{}, Extra: map[string]any{}}
		n := 0
		outcomes := map[string]bool{}
		var samples []any
		add := func(v vlab.Violation, files map[string]string, req string) {
			v.Scenario = name
			v.Input = map[string]any{"files": files, "request": req}
			res.SigCounts[v.Sig]++
			if res.SigCounts[v.Sig] == 1 {
				res.Violations = append(res.Violations, v)
			}
		}
		inc := "version: '3'\ntasks:\n" +
			"  default:\n    cmds:\n" + c08Line("inc", "default") +
			"  a:\n    aliases: [aa]\n    cmds:\n" + c08Line("inc", "a") +
			"  b:\n    deps: [a]\n    cmds:\n      - task: a\n      - task: ':rootx'\n" + c08Line("inc", "b") +
			"  i:\n    internal: true\n    cmds:\n" + c08Line("inc", "i") +
			"  usesi:\n    cmds:\n      - task: i\n" +
			"  e:\n    cmds:\n" + c08Line("inc", "e")
		for mask := 0; mask < 64; mask++ {
			o := c08Opts{mask&1 != 0, mask&2 != 0, mask&4 != 0, mask&8 != 0, mask&16 != 0, mask&32 != 0}
			root := "version: '3'\nincludes:\n" + o.yaml("  ", "./inc.yml", "inc") + "tasks:\n  rootx:\n    cmds:\n" + c08Line("root", "rootx") + "  viadep:\n    deps: ['" + map[bool]string{true: "a", false: "inc:a"}[o.flatten] + "']\n"
			files := map[string]string{"Taskfile.yml": root, "inc.yml": inc, "sub/.keep": ""}
			c08Write(dir, files)
			pwd := "proj"
			if o.dir {
				pwd = "sub"
			}
			iv := ""
			if o.vars {
				iv = "yes-inc"
			}
			line := func(t string) string { return fmt.Sprintf("T=inc:%s PWD=%s IV=%s", t, pwd, iv) }
			rootline := "T=root:rootx PWD=proj IV="
			prefixes := []string{"inc:"}
			if o.aliases {
				prefixes = append(prefixes, "x:", "y:")
			}
			if o.flatten {
				prefixes = []string{""}
			}
			type exp struct {
				req   string
				lines []string
				code  int
			}
			var exps []exp
			for _, p := range prefixes {
				pub := 0
				if o.internal {
					pub = 202
				}
				ok := func(ls ...string) []string {
					if o.internal {
						return nil
					}
					return ls
				}
				exps = append(exps,
					exp{p + "a", ok(line("a")), pub},
					exp{p + "aa", ok(line("a")), pub},
					exp{p + "b", ok(line("a"), line("a"), rootline, line("b")), pub},
					exp{p + "default", ok(line("default")), pub},
					exp{p + "i", nil, 202},
					exp{p + "usesi", ok(line("i")), pub},
					exp{p + "nonexistent", nil, 200},
				)
				if o.excludes {
					exps = append(exps, exp{p + "e", nil, 200})
				} else {
					exps = append(exps, exp{p + "e", ok(line("e")), pub})
				}
				if !o.flatten {
					// <namespace> alone runs the default task
					exps = append(exps, exp{strings.TrimSuffix(p, ":"), ok(line("default")), pub})
				}
			}
			// internal includes stay reachable through deps of other tasks
			exps = append(exps, exp{"viadep", []string{line("a")}, 0}, exp{"rootx", []string{rootline}, 0})
			if o.flatten {
				exps = append(exps, exp{"inc:a", nil, 200}, exp{"inc", nil, 200})
			} else {
				exps = append(exps, exp{"a", nil, 200}, exp{"b", nil, 200})
			}
			for _, ex := range exps {
				lines, code, errs, pan := c08Run(dir, ex.req)
				n++
				outcomes[fmt.Sprintf("%d/%d", code, len(lines))] = true
				if len(samples) < 2 && mask == 41 && strings.HasSuffix(ex.req, "b") {
					samples = append(samples, map[string]any{"options": o.String(), "request": ex.req, "output": lines, "status": code})
				}
				tag := reqKind(ex.req)
				switch {
				case pan != "":
					add(vlab.V("C08", "panic", tag, fmt.Sprintf("options %s, request %q: panic %s", o, ex.req, firstN(pan, 200))), files, ex.req)
				case code != ex.code:
					add(vlab.V("C08", "wrong_status", fmt.Sprintf("%s:got%d:want%d", tag, code, ex.code), fmt.Sprintf("options %s, request %q: status %d (%s), expected %d", o, ex.req, code, firstN(errs, 120), ex.code)), files, ex.req)
				case ex.code == 0 && strings.Join(lines, "|") != strings.Join(ex.lines, "|"):
					add(vlab.V("C08", "wrong_behaviour", tag+":"+c08DiffKind(lines, ex.lines), fmt.Sprintf("options %s, request %q: ran\n    %s\n  expected\n    %s", o, ex.req, strings.Join(lines, "\n    "), strings.Join(ex.lines, "\n    "))), files, ex.req)
				}
			}
		}
		res.Extra["samples"] = samples
		res.Stats = vlab.Stats{Scenario: name, Execs: n, States: n, Transitions: n, Outcomes: len(outcomes), Exhaustive: true}
		return res
	}}
}

func reqKind(req string) string {
	p := strings.Split(req, ":")
	last := p[len(p)-1]
	switch {
	case len(p) == 1 && (last == "inc" || last == "x" || last == "y" || last == "l1" || last == "l2"):
		return "namespace_as_default"
	case p[0] == "x" || p[0] == "y":
		return "namespace_alias:" + last
	}
	return last
}

func c08DiffKind(got, want []string) string {
	if len(got) != len(want) {
		return "different_commands"
	}
	for i := range got {
		if got[i] != want[i] {
			g, w := strings.Fields(got[i]), strings.Fields(want[i])
			for j := 0; j < len(g) && j < len(w); j++ {
				if g[j] != w[j] {
					return strings.SplitN(w[j], "=", 2)[0]
				}
			}
		}
	}
	return "other"
}

// attributes: the merged copy of a task keeps every attribute of its definition
func c08AttrUnit() *Unit {
	name := "attributes-kept"
	return &Unit{Name: name, Weight: 2, Custom: func(u *Unit, dir string, deadline time.Time) *vlab.UnitResult {
		res := &vlab.UnitResult{SigCounts: map[string]int{}, Extra: map[string]any{}}
		attr := `version: '3'
tasks:
  attr:
    desc: d
    summary: s
    aliases: [at]
    prompt: [p1, p2]
    sources: ['*.txt', {exclude: 'x.txt'}]
    generates: ['out']
    status: ['true']
    preconditions: [{sh: 'true', msg: m}]
    requires: {vars: [{name: B, enum: [b]}]}
    platforms: [linux, darwin/arm64]
    dir: ./d
    vars: {TV: 1}
    env: {TE: 1}
    dotenv: ['.env']
    method: timestamp
    run: once
    label: l
    prefix: p
    internal: true
    silent: true
    interactive: true
    ignore_error: true
    watch: true
    set: [e, u]
    shopt: [globstar]
    cmds:
      - {cmd: echo x, silent: true, ignore_error: true, platforms: [linux], set: [x], shopt: [globstar]}
      - {defer: echo d}
      - {for: [a, b], cmd: 'echo {{.ITEM}}'}
      - {for: {matrix: {X: {ref: .LIST}, Y: [1, 2]}}, cmd: 'echo {{.ITEM.X}}{{.ITEM.Y}}'}
`
		// one task per boolean attribute with only that one set (a merge that fills one flag from
		// another shows on these; on "attr" all flags are true)
		flags := []string{"internal", "silent", "interactive", "ignore_error", "watch"}
		names := []string{"attr"}
		for _, f := range flags {
			attr += "  only_" + f + ":\n    " + f + ": true\n    cmds: ['true']\n"
			names = append(names, "only_"+f)
		}
		load := func(files map[string]string, name string) (*ast.Task, error) {
			c08Write(dir, files)
			e := task.NewExecutor(task.WithDir(dir), task.WithStdout(io.Discard), task.WithStderr(io.Discard))
			if err := e.Setup(); err != nil {
				return nil, err
			}
			t, ok := e.Taskfile.Tasks.Get(name)
			if !ok {
				return nil, fmt.Errorf("task %s not found", name)
			}
			return t, nil
		}
		n := 0
		var samples []any
		for _, tname := range names {
			base, err := load(map[string]string{"Taskfile.yml": attr}, tname)
			if err != nil {
				res.HarnessErr = "loading the attribute task alone failed: " + err.Error()
				return res
			}
			for _, form := range []string{"simple", "advanced", "flatten", "nested"} {
				files := map[string]string{"inc.yml": attr}
				target := "inc:" + tname
				switch form {
				case "simple":
					files["Taskfile.yml"] = "version: '3'\nincludes:\n  inc: ./inc.yml\ntasks:\n  r:\n    cmds: ['true']\n"
				case "advanced":
					files["Taskfile.yml"] = "version: '3'\nincludes:\n  inc:\n    taskfile: ./inc.yml\n    vars: {A: 1}\ntasks:\n  r:\n    cmds: ['true']\n"
				case "flatten":
					files["Taskfile.yml"] = "version: '3'\nincludes:\n  inc:\n    taskfile: ./inc.yml\n    flatten: true\ntasks:\n  r:\n    cmds: ['true']\n"
					target = tname
				case "nested":
					files["Taskfile.yml"] = "version: '3'\nincludes:\n  mid: ./mid.yml\ntasks:\n  r:\n    cmds: ['true']\n"
					files["mid.yml"] = "version: '3'\nincludes:\n  inc: ./inc.yml\ntasks:\n  m:\n    cmds: ['true']\n"
					target = "mid:inc:" + tname
				}
				got, err := load(files, target)
				n++
				if err != nil {
					v := vlab.V("C08", "task_dropped", form, fmt.Sprintf("%s include: %v", form, err))
					res.SigCounts[v.Sig]++
					res.Violations = append(res.Violations, v)
					continue
				}
				skip := map[string]bool{"Task": true, "Namespace": true, "Aliases": true, "IncludeVars": true, "IncludedTaskfileVars": true, "Location": true, "Dir": true}
				bv, gv := reflect.ValueOf(*base), reflect.ValueOf(*got)
				for i := 0; i < bv.NumField(); i++ {
					f := bv.Type().Field(i)
					if skip[f.Name] || !f.IsExported() {
						continue
					}
					a, b := fmt.Sprintf("%+v", derefAll(bv.Field(i))), fmt.Sprintf("%+v", derefAll(gv.Field(i)))
					if len(samples) < 2 && f.Name == "Platforms" {
						samples = append(samples, map[string]any{"form": form, "field": f.Name, "definition": a, "merged": b})
					}
					if a != b {
						v := vlab.V("C08", "attribute_lost", f.Name, fmt.Sprintf("%s include: attribute %s of the included task %s is %s, its definition says %s", form, f.Name, tname, firstN(b, 120), firstN(a, 120)))
						v.Scenario = name
						v.Input = map[string]any{"files": files, "task": target}
						res.SigCounts[v.Sig]++
						if res.SigCounts[v.Sig] == 1 {
							res.Violations = append(res.Violations, v)
						}
					}
				}
			}
		}
		res.Extra["samples"] = samples
		res.Stats = vlab.Stats{Scenario: name, Execs: n, States: n, Transitions: n, Outcomes: 2, Exhaustive: true}
		return res
	}}
}

// derefAll renders pointers inside slices/structs by value so that deep copies compare equal
func derefAll(v reflect.Value) any {
	switch v.Kind() {
	case reflect.Ptr:
		if v.IsNil() {
			return nil
		}
		return derefAll(v.Elem())
	case reflect.Slice:
		if v.IsNil() {
			return nil
		}
		out := make([]any, v.Len())
		for i := 0; i < v.Len(); i++ {
			out[i] = derefAll(v.Index(i))
		}
		return out
	case reflect.Struct:
		m := map[string]any{}
		for i := 0; i < v.NumField(); i++ {
			if v.Type().Field(i).IsExported() {
				m[v.Type().Field(i).Name] = derefAll(v.Field(i))
			}
		}
		// ordered maps (Vars, Matrix) print through their String-less pointers: use the exported accessors
		if vv, ok := v.Addr().Interface().(*ast.Vars); ok {
			var kv []string
			for k, x := range vv.All() {
				kv = append(kv, fmt.Sprintf("%s=%v", k, x.Value))
			}
			return kv
		}
		var keys []string
		for k := range m {
			keys = append(keys, k)
		}
		sort.Strings(keys)
		var out []string
		for _, k := range keys {
			out = append(out, fmt.Sprintf("%s:%v", k, m[k]))
		}
		return out
	case reflect.Interface:
		if v.IsNil() {
			return nil
		}
		return derefAll(v.Elem())
	}
	if v.CanInterface() {
		return v.Interface()
	}
	return v.String()
}

// two-level chain: pairs of option subsets over {flatten, aliases, excludes, internal} on both edges
func c08ChainUnit(tier string) *Unit {
	name := "chain-depth-2/option-pairs"
	return &Unit{Name: name, Weight: 6, Custom: func(u *Unit, dir string, deadline time.Time) *vlab.UnitResult {
		res := &vlab.UnitResult{SigCounts: map[string]int{}, Extra: map[string]any{}}
		n := 0
		outcomes := map[string]bool{}
		var samples []any
		add := func(v vlab.Violation, files map[string]string, req string) {
			v.Scenario = name
			v.Input = map[string]any{"files": files, "request": req}
			res.SigCounts[v.Sig]++
			if res.SigCounts[v.Sig] == 1 {
				res.Violations = append(res.Violations, v)
			}
		}
		l2 := "version: '3'\ntasks:\n  t:\n    cmds:\n" + c08Line("l2", "t") + "  callroot:\n    cmds:\n      - task: ':rootx'\n  local:\n    deps: [t]\n    cmds:\n      - task: t\n  e:\n    cmds:\n" + c08Line("l2", "e")
		for m1 := 0; m1 < 16; m1++ {
			for m2 := 0; m2 < 16; m2++ {
				o1 := c08Opts{flatten: m1&1 != 0, aliases: m1&2 != 0, excludes: m1&4 != 0, internal: m1&8 != 0}
				o2 := c08Opts{flatten: m2&1 != 0, aliases: m2&2 != 0, excludes: m2&4 != 0, internal: m2&8 != 0}
				l1 := "version: '3'\nincludes:\n" + o2.yaml("  ", "./l2.yml", "l2") + "tasks:\n  m:\n    cmds:\n" + c08Line("l1", "m") + "  rootx:\n    cmds:\n" + c08Line("l1", "rootx") + "  own:\n    cmds:\n" + c08Line("l1", "own")
				root := "version: '3'\nincludes:\n" + o1.yaml("  ", "./l1.yml", "l1") + "tasks:\n  rootx:\n    cmds:\n" + c08Line("root", "rootx")
				if o1.flatten {
					// flattening l1 into the root would collide on rootx: give l1 no rootx then
					l1 = strings.Replace(l1, "  rootx:\n    cmds:\n"+c08Line("l1", "rootx"), "", 1)
				}
				files := map[string]string{"Taskfile.yml": root, "l1.yml": l1, "l2.yml": l2}
				c08Write(dir, files)
				p1 := []string{"l1:"}
				if o1.aliases {
					p1 = append(p1, "x:", "y:")
				}
				if o1.flatten {
					p1 = []string{""}
				}
				p2 := []string{"l2:"}
				if o2.aliases {
					p2 = append(p2, "x:", "y:")
				}
				if o2.flatten {
					p2 = []string{""}
				}
				internal := o1.internal || o2.internal
				// excludes [e]: on edge 2 removes l2's e; on edge 1 removes l1's own e (named "e" in l1)
				for _, a := range p1 {
					for _, b := range p2 {
						pre := a + b
						want := func(ls ...string) ([]string, int) {
							if internal {
								return nil, 202
							}
							return ls, 0
						}
						type exp struct {
							req   string
							lines []string
							code  int
						}
						var exps []exp
						ls, c := want("T=l2:t PWD=proj IV=")
						exps = append(exps, exp{pre + "t", ls, c})
						ls, c = want("T=l2:t PWD=proj IV=", "T=l2:t PWD=proj IV=")
						exps = append(exps, exp{pre + "local", ls, c})
						ls, c = want("T=root:rootx PWD=proj IV=")
						exps = append(exps, exp{pre + "callroot", ls, c})
						if o2.excludes || (o2.flatten && o1.excludes) { // flattened into l1, l2's e is then l1's e for edge 1
							exps = append(exps, exp{pre + "e", nil, 200})
						} else {
							ls, c = want("T=l2:e PWD=proj IV=")
							exps = append(exps, exp{pre + "e", ls, c})
						}
						for _, ex := range exps {
							lines, code, errs, pan := c08Run(dir, ex.req)
							n++
							outcomes[fmt.Sprintf("%d/%d", code, len(lines))] = true
							if len(samples) < 2 && m1 == 2 && m2 == 0 {
								samples = append(samples, map[string]any{"edge1": o1.String(), "edge2": o2.String(), "request": ex.req, "output": lines, "status": code})
							}
							tag := reqKind(ex.req)
							switch {
							case pan != "":
								add(vlab.V("C08", "panic", tag, fmt.Sprintf("edge options %s / %s, request %q: panic %s", o1, o2, ex.req, firstN(pan, 200))), files, ex.req)
							case code != ex.code:
								add(vlab.V("C08", "wrong_status", fmt.Sprintf("depth2:%s:got%d:want%d", tag, code, ex.code), fmt.Sprintf("edge options %s / %s, request %q: status %d (%s), expected %d", o1, o2, ex.req, code, firstN(errs, 120), ex.code)), files, ex.req)
							case ex.code == 0 && strings.Join(lines, "|") != strings.Join(ex.lines, "|"):
								add(vlab.V("C08", "wrong_behaviour", "depth2:"+tag+":"+c08DiffKind(lines, ex.lines), fmt.Sprintf("edge options %s / %s, request %q: ran\n    %s\n  expected\n    %s", o1, o2, ex.req, strings.Join(lines, "\n    "), strings.Join(ex.lines, "\n    "))), files, ex.req)
							}
						}
					}
				}
			}
		}
		res.Extra["samples"] = samples
		res.Stats = vlab.Stats{Scenario: name, Execs: n, States: n, Transitions: n, Outcomes: len(outcomes), Exhaustive: true}
		return res
	}}
}

// graphs and error cases
func c08GraphUnit() *Unit {
	name := "graphs-and-errors"
	return &Unit{Name: name, Weight: 2, Custom: func(u *Unit, dir string, deadline time.Time) *vlab.UnitResult {
		res := &vlab.UnitResult{SigCounts: map[string]int{}, Extra: map[string]any{}}
		n := 0
		var samples []any
		leaf := func(origin string) string {
			return "version: '3'\ntasks:\n  t:\n    cmds:\n" + c08Line(origin, "t")
		}
		type tc struct {
			label string
			files map[string]string
			req   string
			lines []string
			code  int // -1: any non-zero
		}
		cases := []tc{
			{"diamond", map[string]string{"Taskfile.yml": "version: '3'\nincludes:\n  l: ./l.yml\n  r: ./r.yml\ntasks:\n  x:\n    cmds: ['true']\n",
				"l.yml": "version: '3'\nincludes:\n  s: ./s.yml\ntasks:\n  t:\n    cmds:\n" + c08Line("l", "t"), "r.yml": "version: '3'\nincludes:\n  s: ./s.yml\ntasks:\n  t:\n    cmds:\n" + c08Line("r", "t"), "s.yml": leaf("s")},
				"r:s:t", []string{"T=s:t PWD=proj IV="}, 0},
			{"diamond-left", map[string]string{"Taskfile.yml": "version: '3'\nincludes:\n  l: ./l.yml\n  r: ./r.yml\ntasks:\n  x:\n    cmds: ['true']\n",
				"l.yml": "version: '3'\nincludes:\n  s: ./s.yml\ntasks:\n  t:\n    cmds:\n" + c08Line("l", "t"), "r.yml": "version: '3'\nincludes:\n  s: ./s.yml\ntasks:\n  t:\n    cmds:\n" + c08Line("r", "t"), "s.yml": leaf("s")},
				"l:s:t", []string{"T=s:t PWD=proj IV="}, 0},
			{"same-file-twice-1", map[string]string{"Taskfile.yml": "version: '3'\nincludes:\n  n1:\n    taskfile: ./s.yml\n    vars: {IV: one}\n  n2:\n    taskfile: ./s.yml\n    vars: {IV: two}\n", "s.yml": leaf("s")}, "n1:t", []string{"T=s:t PWD=proj IV=one"}, 0},
			{"same-file-twice-2", map[string]string{"Taskfile.yml": "version: '3'\nincludes:\n  n1:\n    taskfile: ./s.yml\n    vars: {IV: one}\n  n2:\n    taskfile: ./s.yml\n    vars: {IV: two}\n", "s.yml": leaf("s")}, "n2:t", []string{"T=s:t PWD=proj IV=two"}, 0},
			{"uneven-diamond-deep", map[string]string{"Taskfile.yml": "version: '3'\nincludes:\n  c: ./c.yml\n  a: ./a.yml\n", "a.yml": "version: '3'\nincludes:\n  b: ./b.yml\n", "b.yml": "version: '3'\nincludes:\n  c: ./c.yml\n",
				"c.yml": "version: '3'\nincludes:\n  d: ./d.yml\ntasks:\n  t:\n    cmds:\n" + c08Line("c", "t"), "d.yml": leaf("d")}, "a:b:c:d:t", []string{"T=d:t PWD=proj IV="}, 0},
			{"uneven-diamond-short", map[string]string{"Taskfile.yml": "version: '3'\nincludes:\n  c: ./c.yml\n  a: ./a.yml\n", "a.yml": "version: '3'\nincludes:\n  b: ./b.yml\n", "b.yml": "version: '3'\nincludes:\n  c: ./c.yml\n",
				"c.yml": "version: '3'\nincludes:\n  d: ./d.yml\ntasks:\n  t:\n    cmds:\n" + c08Line("c", "t"), "d.yml": leaf("d")}, "c:d:t", []string{"T=d:t PWD=proj IV="}, 0},
			{"twice-nested-one", map[string]string{"Taskfile.yml": "version: '3'\nincludes:\n  one:\n    taskfile: ./mid.yml\n    vars: {IV: one}\n  two:\n    taskfile: ./mid.yml\n    vars: {IV: two}\n",
				"mid.yml": "version: '3'\nincludes:\n  lib:\n    taskfile: ./s.yml\n", "s.yml": leaf("s")}, "one:lib:t", []string{"T=s:t PWD=proj IV=one"}, 0},
			{"twice-nested-two", map[string]string{"Taskfile.yml": "version: '3'\nincludes:\n  one:\n    taskfile: ./mid.yml\n    vars: {IV: one}\n  two:\n    taskfile: ./mid.yml\n    vars: {IV: two}\n",
				"mid.yml": "version: '3'\nincludes:\n  lib:\n    taskfile: ./s.yml\n", "s.yml": leaf("s")}, "two:lib:t", []string{"T=s:t PWD=proj IV=two"}, 0},
			{"same-file-twice-dirs-dynvar-1", map[string]string{"Taskfile.yml": "version: '3'\nincludes:\n  n1:\n    taskfile: ./s.yml\n    dir: ./d1\n  n2:\n    taskfile: ./s.yml\n    dir: ./d2\n",
				"s.yml": "version: '3'\nvars:\n  W: {sh: 'basename \"$PWD\"'}\ntasks:\n  t:\n    cmds:\n      - printf '%s\\n' \"T=s:t PWD=$(basename \"$PWD\") IV={{.W}}\"\n", "d1/.keep": "", "d2/.keep": ""}, "n1:t", []string{"T=s:t PWD=d1 IV=d1"}, 0},
			{"same-file-twice-dirs-dynvar-2", map[string]string{"Taskfile.yml": "version: '3'\nincludes:\n  n1:\n    taskfile: ./s.yml\n    dir: ./d1\n  n2:\n    taskfile: ./s.yml\n    dir: ./d2\n",
				"s.yml": "version: '3'\nvars:\n  W: {sh: 'basename \"$PWD\"'}\ntasks:\n  t:\n    cmds:\n      - printf '%s\\n' \"T=s:t PWD=$(basename \"$PWD\") IV={{.W}}\"\n", "d1/.keep": "", "d2/.keep": ""}, "n2:t", []string{"T=s:t PWD=d2 IV=d2"}, 0},
			{"root-alias-from-included-call", map[string]string{"Taskfile.yml": "version: '3'\nincludes:\n  inc: ./inc.yml\ntasks:\n  rootbuild:\n    aliases: [rb]\n    cmds:\n" + c08Line("root", "rootbuild"),
				"inc.yml": "version: '3'\ntasks:\n  t:\n    cmds:\n      - task: ':rb'\n  u:\n    deps: [':rb']\n"}, "inc:t", []string{"T=root:rootbuild PWD=proj IV="}, 0},
			{"root-alias-from-included-dep", map[string]string{"Taskfile.yml": "version: '3'\nincludes:\n  inc: ./inc.yml\ntasks:\n  rootbuild:\n    aliases: [rb]\n    cmds:\n" + c08Line("root", "rootbuild"),
				"inc.yml": "version: '3'\ntasks:\n  t:\n    cmds:\n      - task: ':rb'\n  u:\n    deps: [':rb']\n"}, "inc:u", []string{"T=root:rootbuild PWD=proj IV="}, 0},
			{"root-name-from-included-call", map[string]string{"Taskfile.yml": "version: '3'\nincludes:\n  inc: ./inc.yml\ntasks:\n  rootbuild:\n    aliases: [rb]\n    cmds:\n" + c08Line("root", "rootbuild"),
				"inc.yml": "version: '3'\ntasks:\n  t:\n    cmds:\n      - task: ':rootbuild'\n"}, "inc:t", []string{"T=root:rootbuild PWD=proj IV="}, 0},
			{"nested-map-form-include-without-dir-in-subdirectory", map[string]string{"Taskfile.yml": "version: '3'\nincludes:\n  mid: ./sub/mid.yml\n",
				"sub/mid.yml": "version: '3'\nincludes:\n  leaf:\n    taskfile: ./leaf.yml\n    aliases: [l]\n", "sub/leaf.yml": leaf("leaf")}, "mid:leaf:t", []string{"T=leaf:t PWD=sub IV="}, 0},
			{"nested-map-form-include-without-dir-in-subdirectory-via-alias", map[string]string{"Taskfile.yml": "version: '3'\nincludes:\n  mid: ./sub/mid.yml\n",
				"sub/mid.yml": "version: '3'\nincludes:\n  leaf:\n    taskfile: ./leaf.yml\n    aliases: [l]\n", "sub/leaf.yml": leaf("leaf")}, "mid:l:t", []string{"T=leaf:t PWD=sub IV="}, 0},
			// included files whose path merely starts like a remote reference (no scheme): they are
			// files, resolved relative to the including Taskfile like any other
			{"include-path-starting-with-git", map[string]string{"Taskfile.yml": "version: '3'\nincludes:\n  g: githooks/Taskfile.yml\n", "githooks/Taskfile.yml": leaf("g")}, "g:t", []string{"T=g:t PWD=proj IV="}, 0},
			{"nested-include-path-starting-with-git", map[string]string{"Taskfile.yml": "version: '3'\nincludes:\n  mid: ./sub/mid.yml\n", "sub/mid.yml": "version: '3'\nincludes:\n  g: git-tools.yml\n", "sub/git-tools.yml": leaf("g")}, "mid:g:t", []string{"T=g:t PWD=proj IV="}, 0},
			{"include-path-starting-with-http-word", map[string]string{"Taskfile.yml": "version: '3'\nincludes:\n  h: httpd/Taskfile.yml\n", "httpd/Taskfile.yml": leaf("h")}, "h:t", []string{"T=h:t PWD=proj IV="}, 0},
			// "runs exactly the commands of its definition": loops of an included task, over a list, a
			// matrix with literal rows and a matrix whose row is a reference; in cmds and in deps
			{"included-task-with-loops", map[string]string{"Taskfile.yml": "version: '3'\nincludes:\n  lib: ./lib.yml\n",
				"lib.yml": "version: '3'\ntasks:\n  t:\n    vars:\n      LIST: [a, b]\n    deps:\n      - for: {matrix: {X: {ref: .LIST}}}\n        task: 'dep'\n        vars: {W: '{{.ITEM.X}}'}\n    cmds:\n      - for: [l1, l2]\n        cmd: printf '%s\\n' 'list {{.ITEM}}'\n      - for: {matrix: {X: {ref: .LIST}, Y: [1, 2]}}\n        cmd: printf '%s\\n' 'matrix {{.ITEM.X}}{{.ITEM.Y}}'\n  dep:\n    cmds:\n      - printf '%s\\n' 'dep'\n"},
				"lib:t", []string{"dep", "dep", "list l1", "list l2", "matrix a1", "matrix a2", "matrix b1", "matrix b2"}, 0},
			{"cycle-2", map[string]string{"Taskfile.yml": "version: '3'\nincludes:\n  a: ./a.yml\n", "a.yml": "version: '3'\nincludes:\n  r: ./Taskfile.yml\n"}, "x", nil, 110},
			{"cycle-3", map[string]string{"Taskfile.yml": "version: '3'\nincludes:\n  a: ./a.yml\n", "a.yml": "version: '3'\nincludes:\n  b: ./b.yml\n", "b.yml": "version: '3'\nincludes:\n  a: ./a.yml\n"}, "x", nil, 110},
			{"self-include", map[string]string{"Taskfile.yml": "version: '3'\nincludes:\n  me: ./Taskfile.yml\n"}, "x", nil, 110},
			{"missing", map[string]string{"Taskfile.yml": "version: '3'\nincludes:\n  a: ./nope.yml\ntasks:\n  t:\n    cmds: ['true']\n"}, "t", nil, -1},
			{"missing-optional", map[string]string{"Taskfile.yml": "version: '3'\nincludes:\n  a:\n    taskfile: ./nope.yml\n    optional: true\ntasks:\n  t:\n    cmds:\n" + c08Line("root", "t")}, "t", []string{"T=root:t PWD=proj IV="}, 0},
			{"missing-inside-optional", map[string]string{"Taskfile.yml": "version: '3'\nincludes:\n  a:\n    taskfile: ./a.yml\n    optional: true\ntasks:\n  t:\n    cmds: ['true']\n", "a.yml": "version: '3'\nincludes:\n  gone: ./nope.yml\n"}, "t", nil, -1},
			{"version-mismatch", map[string]string{"Taskfile.yml": "version: '3'\nincludes:\n  a: ./a.yml\ntasks:\n  t:\n    cmds: ['true']\n", "a.yml": "version: '2'\ntasks:\n  t:\n    cmds: ['true']\n"}, "t", nil, -1},
			{"version-mismatch-minor", map[string]string{"Taskfile.yml": "version: '3'\nincludes:\n  a: ./a.yml\ntasks:\n  t:\n    cmds: ['true']\n", "a.yml": "version: '3.1'\ntasks:\n  t:\n    cmds: ['true']\n"}, "t", nil, -1},
			{"version-mismatch-patch-nested", map[string]string{"Taskfile.yml": "version: '3.0.0'\nincludes:\n  a: ./a.yml\ntasks:\n  t:\n    cmds: ['true']\n", "a.yml": "version: '3.0.0'\nincludes:\n  b: ./b.yml\n", "b.yml": "version: '3.0.1'\ntasks:\n  t:\n    cmds: ['true']\n"}, "t", nil, -1},
			{"versions-equal-in-different-spellings-of-the-same-file", map[string]string{"Taskfile.yml": "version: '3'\nincludes:\n  a: ./a.yml\ntasks:\n  t:\n    cmds:\n" + c08Line("root", "t"), "a.yml": "version: '3'\ntasks:\n  u:\n    cmds: ['true']\n"}, "t", []string{"T=root:t PWD=proj IV="}, 0},
			// a task of the including file whose literal name equals the full name of an included task
			{"namespaced-name-collision-with-root-task", map[string]string{"Taskfile.yml": "version: '3'\nincludes:\n  lib: ./lib.yml\ntasks:\n  'lib:build':\n    cmds:\n" + c08Line("root", "lib:build"), "lib.yml": "version: '3'\ntasks:\n  build:\n    cmds:\n" + c08Line("lib", "build")}, "lib:build", nil, -1},
			{"namespaced-name-collision-nested", map[string]string{"Taskfile.yml": "version: '3'\nincludes:\n  mid: ./mid.yml\n", "mid.yml": "version: '3'\nincludes:\n  in: ./in.yml\ntasks:\n  'in:x':\n    cmds:\n" + c08Line("mid", "in:x"), "in.yml": "version: '3'\ntasks:\n  x:\n    cmds:\n" + c08Line("in", "x")}, "mid:in:x", nil, -1},
			{"flatten-collision-with-root", map[string]string{"Taskfile.yml": "version: '3'\nincludes:\n  a:\n    taskfile: ./a.yml\n    flatten: true\ntasks:\n  t:\n    cmds: ['true']\n", "a.yml": leaf("a")}, "t", nil, -1},
			{"flatten-collision-between-includes", map[string]string{"Taskfile.yml": "version: '3'\nincludes:\n  a:\n    taskfile: ./a.yml\n    flatten: true\n  b:\n    taskfile: ./b.yml\n    flatten: true\n", "a.yml": leaf("a"), "b.yml": leaf("b")}, "t", nil, -1},
			{"included-dotenv-rejected-or-ignored", map[string]string{"Taskfile.yml": "version: '3'\nincludes:\n  a: ./a.yml\n", "a.yml": "version: '3'\ndotenv: ['.env']\ntasks:\n  t:\n    cmds:\n" + c08Line("a", "t")}, "a:t", nil, -1},
		}
		for _, c := range cases {
			c08Write(dir, c.files)
			lines, code, errs, pan := c08Run(dir, c.req)
			n++
			if len(samples) < 2 {
				samples = append(samples, map[string]any{"case": c.label, "request": c.req, "status": code, "output": lines})
			}
			bad := ""
			switch {
			case pan != "":
				bad = "panic " + firstN(pan, 100)
			case c.code == -1 && code == 0:
				bad = "succeeded, an error was expected"
			case c.code >= 0 && code != c.code:
				bad = fmt.Sprintf("status %d (%s), expected %d", code, firstN(errs, 120), c.code)
			case c.code == 0 && strings.Join(lines, "|") != strings.Join(c.lines, "|"):
				bad = fmt.Sprintf("ran %v, expected %v", lines, c.lines)
			}
			if bad != "" {
				v := vlab.V("C08", "graph_case", c.label, fmt.Sprintf("%s, request %q: %s", c.label, c.req, bad))
				v.Scenario = name
				v.Input = map[string]any{"files": c.files, "request": c.req}
				res.SigCounts[v.Sig]++
				if res.SigCounts[v.Sig] == 1 {
					res.Violations = append(res.Violations, v)
				}
			}
		}
		// the dir: of an included task that is anchored at one of the special directory variables,
		// in every spelling of the template, for both include forms
		real, _ := filepath.EvalSymlinks(dir)
		for _, sp := range []struct{ tmpl, want string }{
			{`{{.TASKFILE_DIR}}/out`, "lib/out"}, {`{{ .TASKFILE_DIR }}/out`, "lib/out"}, {`{{joinPath .TASKFILE_DIR "out"}}`, "lib/out"}, {`{{printf "%s/out" .TASKFILE_DIR}}`, "lib/out"},
			{`{{.ROOT_DIR}}/out`, "out"}, {`{{toSlash .ROOT_DIR}}/out`, "out"}, {`{{joinPath .ROOT_DIR "out"}}`, "out"},
			{`{{.USER_WORKING_DIR}}/out`, "out"}, {`{{joinPath .USER_WORKING_DIR "out"}}`, "out"},
		} {
			for _, form := range []string{"plain", "mapping", "mapping-dir"} {
				inc := "  inc: ./lib/inc.yml\n"
				switch form {
				case "mapping":
					inc = "  inc:\n    taskfile: ./lib/inc.yml\n"
				case "mapping-dir":
					inc = "  inc:\n    taskfile: ./lib/inc.yml\n    dir: ./sub\n"
				}
				files := map[string]string{
					"Taskfile.yml": "version: '3'\nincludes:\n" + inc,
					"lib/inc.yml":  "version: '3'\ntasks:\n  t:\n    dir: '" + sp.tmpl + "'\n    cmds:\n      - printf '%s\\n' \"FULLPWD=$PWD\"\n",
					"sub/.keep":    "",
				}
				c08Write(dir, files)
				lines, code, errs, pan := c08Run(dir, "inc:t")
				n++
				want := "FULLPWD=" + filepath.Join(real, sp.want)
				got := strings.Join(lines, "|")
				if r2, err := filepath.EvalSymlinks(strings.TrimPrefix(got, "FULLPWD=")); err == nil {
					got = "FULLPWD=" + r2
				}
				if pan != "" || code != 0 || got != want {
					label := "special-dir-in-included-task:" + form
					v := vlab.V("C08", "graph_case", label, fmt.Sprintf("include form %s, task dir %q: ran in %q (status %d %s %s), expected %q", form, sp.tmpl, got, code, firstN(errs, 100), firstN(pan, 60), want))
					v.Scenario = name
					v.Input = map[string]any{"files": files, "request": "inc:t"}
					res.SigCounts[v.Sig]++
					if res.SigCounts[v.Sig] == 1 {
						res.Violations = append(res.Violations, v)
					}
				}
			}
		}
		res.Extra["samples"] = samples
		res.Stats = vlab.Stats{Scenario: name, Execs: n, States: n, Transitions: n, Outcomes: 3, Exhaustive: true}
		return res
	}}
}

func c08Units(tier string) []*Unit {
	return []*Unit{c08OptionsUnit(tier), c08AttrUnit(), c08ChainUnit(tier), c08GraphUnit()}
}
