package props

import (
	"fmt"
	"os"
	"path/filepath"
	"sort"
	"strings"
	"sync"
	"time"

	"github.com/go-task/task/v3/zverif/vlab"
)

func init() { registry["C11"] = c11Units }

// programs: every probe prints what the command saw (variables, environment through the
// shell, working directory) in its Extra / shell-extra field.
func c11Progs() map[string]*Prog {
	m := map[string]*Prog{}
	m["dynvar-dir-env"] = &Prog{Tasks: []*T{
		{Name: "t1", Dir: "d1", RawLines: []string{"vars:", "  W: {sh: 'basename $(pwd)'}"}, Cmds: []C{{Extra: "W={{.W}}", ShExtra: " pwd=$(basename $(pwd))"}}},
		{Name: "t2", Dir: "d2", RawLines: []string{"vars:", "  W: {sh: 'basename $(pwd)'}"}, Cmds: []C{{Extra: "W={{.W}}", ShExtra: " pwd=$(basename $(pwd))"}}},
		{Name: "t3", Env: [][2]string{{"E", "three"}}, RawLines: []string{"vars:", "  V: {sh: 'echo $E'}"}, Cmds: []C{{Extra: "V={{.V}}", ShExtra: " E=$E"}}},
		{Name: "t4", Env: [][2]string{{"E", "four"}}, RawLines: []string{"vars:", "  V: {sh: 'echo $E'}"}, Cmds: []C{{Extra: "V={{.V}}", ShExtra: " E=$E"}}},
		{Name: "t5", RawLines: []string{"vars:", "  W: {sh: 'basename $(pwd)'}", "  V: {sh: 'echo $E'}"}, Cmds: []C{{Extra: "W={{.W}} V={{.V}}"}}},
	}}
	m["call-vars"] = &Prog{Tasks: []*T{
		{Name: "c1", Cmds: []C{{Call: &Ref{Task: "t", Vars: [][2]string{{"X", "one"}}}}}},
		{Name: "c2", Cmds: []C{{Call: &Ref{Task: "t", Vars: [][2]string{{"X", "two"}}}}}},
		{Name: "c3", Cmds: []C{{Call: &Ref{Task: "t"}}}},
		{Name: "t", Env: [][2]string{{"EX", "{{.X}}"}}, RawLines: []string{"vars:", "  D: {sh: 'echo hello-{{.X}}'}", "  DE: {sh: 'echo env-$X'}", "  IND: {sh: '. ./ind.sh'}", "  L: 'lit-{{.X}}'"},
			Cmds: []C{{Defer: true, Extra: "defer X={{.X}}"}, {Extra: "X={{.X}} D={{.D}} DE={{.DE}} IND={{.IND}} L={{.L}}", ShExtra: " EX=$EX"}, {Call: &Ref{Task: "leaf", Vars: [][2]string{{"Y", "{{.X}}"}}}}}},
		{Name: "leaf", Cmds: []C{{Extra: "Y={{.Y}}"}}},
	}}
	m["global-dynvar-per-task"] = &Prog{
		RawTop: []string{"vars:", "  WHO: {sh: 'echo task-{{.TASK}}'}"},
		Tasks: []*T{
			{Name: "a", Cmds: []C{{Extra: "WHO={{.WHO}}"}}},
			{Name: "b", Cmds: []C{{Extra: "WHO={{.WHO}}"}}},
			{Name: "c", Dir: "d1", Cmds: []C{{Extra: "WHO={{.WHO}}"}}},
		}}
	// one task definition, a directory that depends on the call's variable and does not exist yet
	m["templated-dir"] = &Prog{Tasks: []*T{
		{Name: "d1", Cmds: []C{{Call: &Ref{Task: "mk", Vars: [][2]string{{"NAME", "one"}}}}}},
		{Name: "d2", Cmds: []C{{Call: &Ref{Task: "mk", Vars: [][2]string{{"NAME", "two"}}}}}},
		{Name: "mk", Dir: "out-{{.NAME}}", Cmds: []C{{Extra: "NAME={{.NAME}}", ShExtra: " pwd=$(basename $(pwd))"}}},
	}}
	// one concrete name of a wildcard task, called from several tasks of one invocation
	m["wildcard-same-name-several-callers"] = &Prog{Tasks: []*T{
		{Name: "w1", Cmds: []C{{Call: &Ref{Task: "gen-*", As: "gen-app"}}}},
		{Name: "w2", Cmds: []C{{Call: &Ref{Task: "gen-*", As: "gen-app"}}, {Call: &Ref{Task: "gen-*", As: "gen-lib"}}}},
		{Name: "w3", Deps: []Ref{{Task: "gen-*", As: "gen-app"}}, Cmds: []C{P()}},
		{Name: "gen-*", Cmds: []C{{Extra: "M={{index .MATCH 0}}"}}},
	}}
	// values that are templates with nothing to render (a comment, a define block only)
	m["templates-that-render-nothing"] = &Prog{Tasks: []*T{
		{Name: "e1", Cmds: []C{{Extra: "first-{{.TASK}}"}}},
		{Name: "e2", Env: [][2]string{{"EXTRA", "{{/* none */}}"}, {"DEF", `{{define "x"}}body{{end}}`}}, Cmds: []C{{ShExtra: " EXTRA=[$EXTRA] DEF=[$DEF]"}}},
		{Name: "e3", Vars: [][2]string{{"NOTE", "{{/* nothing */}}"}}, Cmds: []C{{Extra: "NOTE=[{{.NOTE}}]"}}},
	}}
	m["matrix-ref-and-loops"] = &Prog{Tasks: []*T{
		{Name: "m1", Cmds: []C{{Call: &Ref{Task: "looper", ListVars: [][2]string{{"L", "a b"}}}}}},
		{Name: "m2", Cmds: []C{{Call: &Ref{Task: "looper", ListVars: [][2]string{{"L", "c"}}}}}},
		{Name: "looper", Cmds: []C{{For: &vlab.For{MatrixRef: [][2]string{{"K", "L"}}}, Extra: "K={{.ITEM.K}}"}}},
	}}
	return m
}

func c11Scenario(name string, pg *Prog, calls []string) *vlab.Scenario {
	sc := &vlab.Scenario{Name: name, Files: map[string]string{"Taskfile.yml": pg.YAML(), "d1/.keep": "", "d2/.keep": "", "ind.sh": "echo ind-$X\n"}, Spec: pg}
	for i, c := range calls {
		sc.Calls = append(sc.Calls, vlab.CallSpec{Task: c, Vars: [][2]string{{"VP", fmt.Sprintf("@%d", i+1)}}})
	}
	return sc
}

// linesOf returns the probe lines of the call whose VP root is "@k", with the root marker
// normalised away (so that the same task called as 1st or 3rd argument compares equal).
func linesOf(tr []vlab.Event, k int) []string {
	root := fmt.Sprintf("@%d", k)
	var out []string
	for _, e := range tr {
		parts := strings.SplitN(e.Line, "|", 5)
		if len(parts) == 5 && (parts[3] == root || strings.HasPrefix(parts[3], root+">")) {
			parts[3] = "@" + strings.TrimPrefix(parts[3], root)
			out = append(out, string(e.K)+" "+strings.Join(parts, "|"))
		}
	}
	return out
}

func runFree(sc *vlab.Scenario, dir string) *vlab.Exec {
	x := &vlab.Exec{Aux: map[string]string{}}
	probe := &vlab.Probe{}
	sc.Body(dir, x, probe, &vlab.RawWriter{})()
	x.Trace = probe.Trace
	if x.Err != nil {
		x.ErrStr = x.Err.Error()
	}
	return x
}

// sequential differential: for every target T and every sequence of <= 2 other tasks before
// it in the same invocation, T's observable commands equal those of running T alone.
func c11SeqUnit(pname string, pg *Prog, tier string) *Unit {
	name := "seq/" + pname
	return &Unit{Name: name, Weight: 3, Custom: func(u *Unit, dir string, deadline time.Time) *vlab.UnitResult {
		res := &vlab.UnitResult{SigCounts: map[string]int{}, Extra: map[string]any{}}
		var roots []string
		called := pg.Referrers()
		for _, t := range pg.Tasks {
			if called[t.Name] == 0 {
				roots = append(roots, t.Name)
			}
		}
		sort.Strings(roots)
		n := 0
		outcomes := map[string]bool{}
		var samples []any
		base := map[string][]string{}
		for _, t := range roots {
			sc := c11Scenario(name, pg, []string{t})
			os.RemoveAll(dir) // (directories that an earlier run created must not help a later one)
			os.MkdirAll(dir, 0o755)
			sc.Materialise(dir)
			x := runFree(sc, dir)
			base[t] = linesOf(x.Trace, 1)
			n++
			if x.Err != nil {
				res.HarnessErr = fmt.Sprintf("baseline of %s failed: %v", t, x.Err)
				return res
			}
		}
		var prefixes [][]string
		for _, a := range roots {
			prefixes = append(prefixes, []string{a})
			for _, b := range roots {
				prefixes = append(prefixes, []string{a, b})
			}
		}
		for _, t := range roots {
			for _, pre := range prefixes {
				calls := append(append([]string{}, pre...), t)
				sc := c11Scenario(name, pg, calls)
				os.RemoveAll(dir)
				os.MkdirAll(dir, 0o755)
				sc.Materialise(dir)
				x := runFree(sc, dir)
				n++
				got := linesOf(x.Trace, len(calls))
				outcomes[strings.Join(got, ";")] = true
				if len(samples) < 2 {
					samples = append(samples, map[string]any{"calls": calls, "target_lines": got})
				}
				if strings.Join(got, "\n") != strings.Join(base[t], "\n") || x.Err != nil {
					what := diffField(base[t], got)
					v := vlab.V("C11", "depends_on_earlier_tasks", what,
						fmt.Sprintf("program %s: `task %s` runs %s with\n  %s\nbut alone it runs with\n  %s (err=%v)", pname, strings.Join(calls, " "), t, strings.Join(got, "\n  "), strings.Join(base[t], "\n  "), x.Err))
					v.Scenario = name
					v.Input = map[string]any{"taskfile": pg.YAML(), "calls": calls}
					res.SigCounts[v.Sig]++
					if res.SigCounts[v.Sig] == 1 {
						res.Violations = append(res.Violations, v)
					}
				}
			}
		}
		res.Extra["samples"] = samples
		res.Stats = vlab.Stats{Scenario: name, Execs: n, States: n, Transitions: n, Outcomes: len(outcomes), Exhaustive: true}
		return res
	}}
}

// diffField names the first field (K=...) that differs between baseline and observed lines.
func diffField(a, b []string) string {
	for i := 0; i < len(a) && i < len(b); i++ {
		if a[i] != b[i] {
			fa, fb := strings.Fields(lastField(a[i])), strings.Fields(lastField(b[i]))
			for j := 0; j < len(fa) && j < len(fb); j++ {
				if fa[j] != fb[j] {
					if k := strings.IndexByte(fa[j], '='); k > 0 {
						return fa[j][:k]
					}
					return "field"
				}
			}
			return "line"
		}
	}
	return "line_count"
}

func lastField(l string) string {
	p := strings.SplitN(l, "|", 5)
	return p[len(p)-1]
}

// concurrent: root deps [X, T]: under every schedule T's lines equal the T-alone baseline.
func c11ConcUnit(pname string, pg *Prog, xs []string, t string, tier string) *Unit {
	pg2 := &Prog{Tasks: append([]*T{}, pg.Tasks...), RawTop: pg.RawTop, Vars: pg.Vars}
	root := &T{Name: "root"}
	for _, x := range xs {
		root.Deps = append(root.Deps, D(x))
	}
	root.Deps = append(root.Deps, D(t))
	pg2.Tasks = append(pg2.Tasks, root)
	sc := scen(fmt.Sprintf("conc/%s/%s||%s", pname, strings.Join(xs, ","), t), pg2, vlab.Options{}, "root")
	sc.Files["d1/.keep"], sc.Files["d2/.keep"], sc.Files["ind.sh"] = "", "", "echo ind-$X\n"
	var once sync.Once
	var base []string
	tsite := fmt.Sprintf("@>root.d%d", len(xs))
	sub := func(tr []vlab.Event) []string {
		var out []string
		for _, e := range tr {
			parts := strings.SplitN(e.Line, "|", 5)
			if len(parts) == 5 && (parts[3] == tsite || strings.HasPrefix(parts[3], tsite+">")) {
				parts[3] = "@" + strings.TrimPrefix(parts[3], tsite)
				out = append(out, string(e.K)+" "+strings.Join(parts, "|"))
			}
		}
		return out
	}
	check := func(x *vlab.Exec) []vlab.Violation {
		out := generic("C11", x)
		once.Do(func() {
			tmp, err := os.MkdirTemp(os.Getenv("VERIF_WORK"), "b-")
			if err != nil {
				return
			}
			defer os.RemoveAll(tmp)
			dir := filepath.Join(tmp, "proj")
			os.MkdirAll(dir, 0o755)
			alone := c11Scenario("base", pg, []string{t})
			alone.Materialise(dir)
			base = linesOf(runFree(alone, dir).Trace, 1)
		})
		got := sub(x.Trace)
		if x.Code != 0 && !x.Res.Deadlock && !x.Res.Horizon && x.Res.Panic == "" {
			// (none of these programs has a failing command: a failing invocation is either a defect or a
			// scenario that lacks a file, and must not pass for "nothing differs")
			out = append(out, vlab.V("C11", "spurious_failure", "concurrent", fmt.Sprintf("program %s, %v next to %s: status %d (%s)", pname, xs, t, x.Code, firstN(x.ErrStr, 160))))
		}
		if x.Code == 0 && strings.Join(got, "\n") != strings.Join(base, "\n") {
			out = append(out, vlab.V("C11", "depends_on_concurrent_tasks", diffField(base, got),
				fmt.Sprintf("program %s: with %v running concurrently %s runs with\n  %s\nbut alone it runs with\n  %s", pname, xs, t, strings.Join(got, "\n  "), strings.Join(base, "\n  "))))
		}
		return out
	}
	bound := 2
	if len(xs) > 1 && len(pg.Tasks) > 4 {
		bound = 1
	}
	if tier == "thorough" {
		bound++
	}
	return &Unit{Name: sc.Name, Sc: sc, Bound: bound, Prune: true, Check: check, Weight: 4}
}

func c11Units(tier string) []*Unit {
	var us []*Unit
	progs := c11Progs()
	for _, name := range sortedProgNames(progs) {
		us = append(us, c11SeqUnit(name, progs[name], tier))
	}
	us = append(us,
		c11ConcUnit("dynvar-dir-env", progs["dynvar-dir-env"], []string{"t1"}, "t2", tier),
		c11ConcUnit("dynvar-dir-env", progs["dynvar-dir-env"], []string{"t3"}, "t4", tier),
		c11ConcUnit("dynvar-dir-env", progs["dynvar-dir-env"], []string{"t1", "t3"}, "t5", tier),
		c11ConcUnit("call-vars", progs["call-vars"], []string{"c1"}, "c2", tier),
		c11ConcUnit("call-vars", progs["call-vars"], []string{"c1", "c2"}, "c3", tier),
		c11ConcUnit("global-dynvar-per-task", progs["global-dynvar-per-task"], []string{"a"}, "b", tier),
		c11ConcUnit("matrix-ref-and-loops", progs["matrix-ref-and-loops"], []string{"m1"}, "m2", tier),
		c11WildcardUnit(tier),
	)
	return us
}

// Concurrent calls of a wildcard task from one call site (a for-loop in deps) with plain,
// template-free call variables, and a global dynamic variable that is evaluated between task
// lookup and call-variable evaluation: every call renders its own {{.MATCH}}.
func c11WildcardUnit(tier string) *Unit {
	files := map[string]string{
		"Taskfile.yml": "version: '3'\nvars:\n  G: {sh: echo g}\ntasks:\n  root:\n    deps:\n      - for: [a, b]\n        task: build-{{.ITEM}}\n        vars: {MODE: fast}\n" +
			"  build-*:\n    cmds:\n      - printf '%s\\n' 'P|build|0|{{index .MATCH 0}}|MODE={{.MODE}} G={{.G}}'\n",
	}
	sc := &vlab.Scenario{Name: "conc/wildcard-for-loop-static-vars", Files: files, Calls: []vlab.CallSpec{{Task: "root"}}}
	bound := 2
	if tier == "thorough" {
		bound = 3
	}
	return &Unit{Name: sc.Name, Sc: sc, Bound: bound, Prune: true, Weight: 3, Check: func(x *vlab.Exec) []vlab.Violation {
		out := generic("C11", x)
		if x.Code != 0 {
			return append(out, vlab.V("C11", "spurious_failure", "wildcard", fmt.Sprintf("status %d (%s)", x.Code, firstN(x.ErrStr, 120))))
		}
		seen := map[string]int{}
		for _, e := range vlab.ParseTrace(x.Trace) {
			if e.K == 'S' && e.Task == "build" {
				seen[e.VP]++
				if e.Extra != "MODE=fast G=g" {
					out = append(out, vlab.V("C11", "depends_on_concurrent_tasks", "wildcard:vars", fmt.Sprintf("build-%s printed %q, expected MODE=fast G=g", e.VP, e.Extra)))
				}
			}
		}
		if seen["a"] != 1 || seen["b"] != 1 || len(seen) != 2 {
			out = append(out, vlab.V("C11", "depends_on_concurrent_tasks", "wildcard:MATCH", fmt.Sprintf("the calls build-a and build-b rendered {{.MATCH}} as %v (each must see its own match exactly once)", seen)))
		}
		return out
	}}
}
