package props

import (
	"context"
	"errors"
	"fmt"
	"io"
	"os"
	"path/filepath"
	"sort"
	"strings"
	"time"

	"github.com/go-task/task/v3/internal/logger"
	"github.com/go-task/task/v3/internal/output"
	"github.com/go-task/task/v3/internal/templater"
	"github.com/go-task/task/v3/taskfile/ast"
	"github.com/go-task/task/v3/zverif/vlab"
	"github.com/go-task/task/v3/zverif/vsched"
)

func init() { registry["C17"] = c17Units }

// chunkings of a text into at most 3 writes (every cut position combination)
func chunkings(text string) [][]string {
	if text == "" {
		return [][]string{{}, {""}}
	}
	var out [][]string
	n := len(text)
	out = append(out, []string{text})
	for i := 1; i < n; i++ {
		out = append(out, []string{text[:i], text[i:]})
		for j := i + 1; j < n; j++ {
			out = append(out, []string{text[:i], text[i:j], text[j:]})
		}
	}
	return out
}

func c17Texts(letter string) []string {
	var out []string
	for _, t := range []string{"", "x\n", "x", "x\ny", "x\ny\n", "\n", "5% x\n%d\n"} {
		out = append(out, strings.NewReplacer("x", letter+"1", "y", letter+"2").Replace(t))
	}
	return out
}

type c17cfg struct {
	mode      string // group | prefixed
	begin     bool
	end       bool
	errorOnly bool
	threads   int
	stderr    bool // the threads write to the wrapper handed out for stderr instead of the one for stdout
	pipe      bool // every command has a second writer (the other end of a pipeline, a background job) that writes one whole line to the command's stderr wrapper while the first writes to its stdout wrapper
	small     bool // one text, one chunking (used where the schedule space, not the input space, is the subject)
	late      bool // with pipe: the second writer is only joined after the command's close function ran (a background job that outlives its command); used for the race oracle only
}

func (c c17cfg) name() string {
	n := fmt.Sprintf("direct/%s/begin=%v/end=%v/error_only=%v/threads=%d", c.mode, c.begin, c.end, c.errorOnly, c.threads)
	if c.stderr {
		n += "/stderr"
	}
	if c.pipe {
		n += "/two-writers-per-command"
	}
	if c.late {
		n += "/second-outlives-the-command"
	}
	return n
}

// direct harness: threads obtain wrappers from the real output.Group / output.Prefixed over one
// shared recording writer, write their chunks and close. The chunking of every thread's text and
// (error_only) the command outcome are environment choices explored exhaustively, as are all
// interleavings of the underlying writes.
func c17Direct(c c17cfg) *Unit {
	letters := []string{"a", "b", "c"}[:c.threads]
	type choice struct {
		text   string
		chunks []string
	}
	var all [][]choice
	for _, l := range letters {
		var cs []choice
		texts := c17Texts(l)
		if c.threads == 3 {
			texts = []string{"", l + "1\n", l + "1\n" + l + "2"}
		}
		if c.pipe {
			texts = []string{"", l + "1\n", l + "1\n" + l + "2\n"}
		}
		if c.small {
			texts = []string{l + "1\n" + l + "2\n"}
		}
		for _, t := range texts {
			for _, ch := range chunkings(t) {
				if c.threads == 3 && len(ch) > 2 {
					continue
				}
				if c.pipe && (len(ch) > 2 || (c.mode == "prefixed" && !wholeLines(ch)) || (c.small && len(ch) != 2)) {
					continue
				}
				cs = append(cs, choice{t, ch})
			}
		}
		all = append(all, cs)
	}
	sc := &vlab.Scenario{Name: c.name(), Files: map[string]string{}}
	sc.BodyFn = func(dir string, x *vlab.Exec, raw *vlab.RawWriter) {
		var out output.Output
		lg := &logger.Logger{Stdout: io.Discard, Stderr: io.Discard}
		if c.mode == "group" {
			g := output.Group{ErrorOnly: c.errorOnly}
			if c.begin {
				g.Begin = "<{{.N}}"
			}
			if c.end {
				g.End = ">{{.N}}"
			}
			out = g
		} else {
			out = output.NewPrefixed(lg)
		}
		picks := make([]choice, c.threads)
		fails := make([]bool, c.threads)
		kinds := make([]int, c.threads) // 0 succeeded, 1 exited non-zero, 2 killed by the cancellation a failing sibling caused
		for i := range letters {
			picks[i] = all[i][vsched.Choose(len(all[i]), "chunking")]
			if c.errorOnly {
				// (thread 0 may also end cancelled; one cancelled command next to an ordinary one is the
				// case that matters, and three outcomes for every thread do not fit the quick budget)
				nk := 2
				if i == 0 {
					nk = 3
				}
				kinds[i] = vsched.Choose(nk, "outcome")
				fails[i] = kinds[i] != 0
			}
			x.Aux[fmt.Sprintf("in%d", i)] = fmt.Sprintf("%q fail=%v", picks[i].chunks, fails[i])
			x.Aux[fmt.Sprintf("chunks%d", i)] = strings.Join(picks[i].chunks, "\x00")
		}
		x.Aux["texts"] = ""
		var g vsched.Group
		for i := range letters {
			i := i
			vars := ast.NewVars()
			vars.Set("N", ast.Var{Value: strings.ToUpper(letters[i])})
			cache := &templater.Cache{Vars: vars}
			g.Go(func() error {
				w, we, closer := out.WrapWriter(raw, raw, strings.ToUpper(letters[i]), cache)
				if c.stderr {
					w = we
				}
				var side vsched.Group
				if c.pipe {
					side.Go(func() error {
						we.Write([]byte(letters[i] + "9\n"))
						return nil
					})
				}
				for _, ch := range picks[i].chunks {
					w.Write([]byte(ch))
				}
				if !c.late {
					side.Wait()
				}
				var err error
				if kinds[i] == 2 {
					err = fmt.Errorf("task: command was cancelled: %w", context.Canceled)
				} else if fails[i] {
					err = errors.New("failed")
				}
				closer(err)
				if c.late {
					side.Wait()
				}
				return nil
			})
		}
		g.Wait()
		// remember the inputs for the oracle
		for i := range letters {
			x.Aux[fmt.Sprintf("text%d", i)] = picks[i].text
			x.Aux[fmt.Sprintf("fail%d", i)] = fmt.Sprint(fails[i])
		}
	}
	check := func(x *vlab.Exec) []vlab.Violation {
		out := generic("C17", x)
		stream := ""
		for _, e := range x.Trace {
			if e.K == 'W' {
				stream += e.Line
			}
		}
		tag := c.mode
		if c.mode == "group" {
			var blocks []string
			for i, l := range letters {
				text := x.Aux[fmt.Sprintf("text%d", i)]
				failed := x.Aux[fmt.Sprintf("fail%d", i)] == "true"
				if text == "" || (c.errorOnly && !failed) {
					continue
				}
				b := text
				if c.begin {
					b = "<" + strings.ToUpper(l) + "\n" + b
				}
				if c.end {
					b += ">" + strings.ToUpper(l) + "\n"
				}
				blocks = append(blocks, b)
			}
			if c.pipe {
				return append(out, c17PipeGroup(c, letters, x, stream)...)
			}
			if !isPermutationConcat(stream, blocks) {
				kind := "torn_or_lost"
				if len(stream) == totalLen(blocks) {
					kind = "interleaved_blocks"
				}
				out = append(out, vlab.V("C17", "group_block", tag+":"+kind, fmt.Sprintf("stream %q is not a sequence of the whole blocks %q (inputs %v)", stream, blocks, auxInputs(x))))
			}
			return out
		}
		// prefixed: whole lines only, each thread's lines in order, nothing lost or duplicated
		got := map[string]string{}
		rest := stream
		for rest != "" {
			nl := strings.IndexByte(rest, '\n')
			if nl < 0 {
				out = append(out, vlab.V("C17", "prefixed_line", "unterminated", fmt.Sprintf("stream %q ends inside a line", stream)))
				return out
			}
			line := rest[:nl]
			rest = rest[nl+1:]
			if len(line) < 4 || line[0] != '[' || line[2] != ']' || line[3] != ' ' {
				out = append(out, vlab.V("C17", "prefixed_line", "torn", fmt.Sprintf("line %q of stream %q is not a whole prefixed line (inputs %v)", line, stream, auxInputs(x))))
				return out
			}
			p := strings.ToLower(line[1:2])
			body := line[4:]
			if strings.Trim(body, p+"1259% d") != "" {
				out = append(out, vlab.V("C17", "prefixed_line", "foreign_bytes", fmt.Sprintf("line %q carries prefix %s but bytes of another command (stream %q)", line, p, stream)))
				return out
			}
			got[p] += body + "\n"
		}
		for i, l := range letters {
			text := x.Aux[fmt.Sprintf("text%d", i)]
			want := text
			if want != "" && !strings.HasSuffix(want, "\n") {
				want += "\n"
			}
			if c.pipe {
				// the side writer's line may land anywhere between the first writer's lines
				if strings.Count(got[l], l+"9\n") == 1 {
					got[l] = strings.Replace(got[l], l+"9\n", "", 1)
				} else {
					got[l] += "<side line missing or duplicated>"
				}
			}
			if got[l] != want {
				kind := "lost"
				if len(got[l]) > len(want) {
					kind = "duplicated"
				}
				out = append(out, vlab.V("C17", "prefixed_bytes", kind, fmt.Sprintf("command %s wrote %q in chunks %s, the stream carries %q for it", l, text, x.Aux[fmt.Sprintf("in%d", i)], got[l])))
			}
		}
		return out
	}
	return &Unit{Name: sc.Name, Sc: sc, Bound: -1, Prune: true, Env: true, Check: check, Weight: 3}
}

func wholeLines(chunks []string) bool {
	for _, c := range chunks {
		if !strings.HasSuffix(c, "\n") {
			return false
		}
	}
	return true
}

// two writers per command under output group: each command's block holds the first writer's
// chunks in order with the second writer's line somewhere between them (at write granularity).
func c17PipeGroup(c c17cfg, letters []string, x *vlab.Exec, stream string) []vlab.Violation {
	var alts [][]string // per command: the admissible blocks
	for i, l := range letters {
		var chunks []string
		if cs := x.Aux[fmt.Sprintf("chunks%d", i)]; cs != "" {
			chunks = strings.Split(cs, "\x00")
		}
		failed := x.Aux[fmt.Sprintf("fail%d", i)] == "true"
		if c.errorOnly && !failed {
			continue
		}
		var bs []string
		for pos := 0; pos <= len(chunks); pos++ {
			b := strings.Join(chunks[:pos], "") + l + "9\n" + strings.Join(chunks[pos:], "")
			if c.begin {
				b = "<" + strings.ToUpper(l) + "\n" + b
			}
			if c.end {
				b += ">" + strings.ToUpper(l) + "\n"
			}
			bs = append(bs, b)
		}
		alts = append(alts, bs)
	}
	var try func(k int, chosen []string) bool
	try = func(k int, chosen []string) bool {
		if k == len(alts) {
			return isPermutationConcat(stream, chosen)
		}
		for _, b := range alts[k] {
			if try(k+1, append(append([]string{}, chosen...), b)) {
				return true
			}
		}
		return false
	}
	if !try(0, nil) {
		return []vlab.Violation{vlab.V("C17", "group_block", "group:two_writers:torn_or_lost", fmt.Sprintf("stream %q is not a sequence of whole blocks holding each command's writes (inputs %v)", stream, auxInputs(x)))}
	}
	return nil
}

func auxInputs(x *vlab.Exec) []string {
	var out []string
	for i := 0; i < 3; i++ {
		if v, ok := x.Aux[fmt.Sprintf("in%d", i)]; ok {
			out = append(out, v)
		}
	}
	return out
}

func totalLen(bs []string) int {
	n := 0
	for _, b := range bs {
		n += len(b)
	}
	return n
}

func isPermutationConcat(stream string, blocks []string) bool {
	if len(blocks) == 0 {
		return stream == ""
	}
	for i, b := range blocks {
		if strings.HasPrefix(stream, b) {
			rest := append(append([]string{}, blocks[:i]...), blocks[i+1:]...)
			if isPermutationConcat(stream[len(b):], rest) {
				return true
			}
		}
	}
	return false
}

// through the Executor: two (three) parallel deps printing with printf builtins
func c17Exec(mode string, begin bool, tier string) *Unit {
	pg := &Prog{Tasks: []*T{
		{Name: "root", Deps: []Ref{D("a"), D("b")}},
		{Name: "a", Prefix: "A", RawLines: []string{"cmds:", "  - printf 'a1\\na2'; printf '\\n'", "  - printf 'a3\\n'"}},
		// (an internal task: its output is wrapped like any other task's)
		{Name: "b", Prefix: "B", Internal: true, RawLines: []string{"cmds:", "  - printf 'b1\\n'; printf 'b2\\nb3\\n'"}},
	}}
	opts := vlab.Options{Output: mode}
	if mode == "group" && begin {
		opts.GroupBegin, opts.GroupEnd = "<{{.TASK}}", ">{{.TASK}}"
	}
	sc := scen(fmt.Sprintf("executor/%s/begin=%v", mode, begin), pg, opts, "root")
	sc.Raw = true
	check := func(x *vlab.Exec) []vlab.Violation {
		out := generic("C17", x)
		stream := ""
		for _, e := range x.Trace {
			if e.K == 'W' {
				stream += e.Line
			}
		}
		if mode == "group" {
			wrap := func(t, body string) string {
				if begin {
					return "<" + t + "\n" + body + ">" + t + "\n"
				}
				return body
			}
			blocks := []string{wrap("a", "a1\na2\n"), wrap("a", "a3\n"), wrap("b", "b1\nb2\nb3\n")}
			if !isPermutationConcat(stream, blocks) {
				kind := "torn_or_lost"
				if len(stream) == totalLen(blocks) {
					kind = "interleaved_blocks"
				}
				out = append(out, vlab.V("C17", "group_block", "group:"+kind, fmt.Sprintf("executor stream %q is not a sequence of the whole blocks %q", stream, blocks)))
			}
			return out
		}
		got := map[string][]string{}
		for _, line := range strings.SplitAfter(stream, "\n") {
			if line == "" {
				continue
			}
			if len(line) < 5 || line[0] != '[' || line[2] != ']' || line[3] != ' ' || !strings.HasSuffix(line, "\n") {
				out = append(out, vlab.V("C17", "prefixed_line", "torn", fmt.Sprintf("executor stream %q: %q is not a whole prefixed line", stream, line)))
				return out
			}
			got[line[1:2]] = append(got[line[1:2]], line[4:])
		}
		if strings.Join(got["A"], "") != "a1\na2\na3\n" || strings.Join(got["B"], "") != "b1\nb2\nb3\n" {
			out = append(out, vlab.V("C17", "prefixed_bytes", "lost_or_duplicated", fmt.Sprintf("executor stream %q does not carry every line exactly once with its task's prefix", stream)))
		}
		return out
	}
	bound := 2
	if tier == "thorough" {
		bound = 3
	}
	return &Unit{Name: sc.Name, Sc: sc, Bound: bound, Prune: true, Check: check, Weight: 5}
}

func c17Units(tier string) []*Unit {
	var us []*Unit
	for _, begin := range []bool{false, true} {
		for _, end := range []bool{false, true} {
			for _, eo := range []bool{false, true} {
				us = append(us, c17Direct(c17cfg{mode: "group", begin: begin, end: end, errorOnly: eo, threads: 2}))
			}
		}
	}
	us = append(us, c17Direct(c17cfg{mode: "group", begin: true, end: true, threads: 3}))
	us = append(us, c17Direct(c17cfg{mode: "prefixed", threads: 2}))
	us = append(us, c17Direct(c17cfg{mode: "prefixed", threads: 2, stderr: true}), c17Direct(c17cfg{mode: "group", begin: true, end: true, threads: 2, stderr: true}))
	us = append(us, c17Direct(c17cfg{mode: "prefixed", threads: 2, pipe: true}), c17Direct(c17cfg{mode: "group", begin: true, end: true, threads: 2, pipe: true}))
	if tier == "thorough" {
		us = append(us, c17Direct(c17cfg{mode: "prefixed", threads: 3}))
	}
	us = append(us, c17Exec("group", false, tier), c17Exec("group", true, tier), c17Exec("prefixed", false, tier), c17ErrorOnlyIgnored(tier), c17LargeBlocks(), c17LongLinePrefixed(), c17ExternalProcessUnit(), c17IncludedOutputUnit())
	return us
}

// blocks larger than any buffer size one might pick (9 000 bytes each): still one contiguous block
func c17LargeBlocks() *Unit {
	pg := &Prog{Tasks: []*T{
		{Name: "root", Deps: []Ref{D("a"), D("b")}},
		{Name: "a", RawLines: []string{"cmds:", "  - printf 'a%09000d\\n' 1"}},
		{Name: "b", RawLines: []string{"cmds:", "  - printf 'b%09000d\\n' 2"}},
	}}
	sc := scen("executor/group/blocks-of-9000-bytes", pg, vlab.Options{Output: "group"}, "root")
	sc.Raw = true
	blocks := []string{"a" + fmt.Sprintf("%09000d", 1) + "\n", "b" + fmt.Sprintf("%09000d", 2) + "\n"}
	return &Unit{Name: sc.Name, Sc: sc, Bound: 2, Prune: true, Weight: 2, Check: func(x *vlab.Exec) []vlab.Violation {
		out := generic("C17", x)
		stream := ""
		for _, e := range x.Trace {
			if e.K == 'W' {
				stream += e.Line
			}
		}
		if !isPermutationConcat(stream, blocks) {
			kind := "torn_or_lost"
			if len(stream) == totalLen(blocks) {
				kind = "interleaved_blocks"
			}
			out = append(out, vlab.V("C17", "group_block", "group:large:"+kind, fmt.Sprintf("the stream (%d bytes, starts %q) is not the two whole 9 001-byte blocks in either order", len(stream), firstN(stream, 40))))
		}
		return out
	}}
}

// one line of 70 000 bytes written in two pieces (larger than any line buffer one might pick):
// under output prefixed it is still one prefixed line
func c17LongLinePrefixed() *Unit {
	pg := &Prog{Tasks: []*T{
		{Name: "root", Deps: []Ref{D("a"), D("b")}},
		{Name: "a", Prefix: "A", RawLines: []string{"cmds:", "  - printf 'a%070000d' 1; printf 'tail\\n'"}},
		{Name: "b", Prefix: "B", RawLines: []string{"cmds:", "  - printf 'b1\\n'"}},
	}}
	sc := scen("executor/prefixed/line-of-70000-bytes-in-two-writes", pg, vlab.Options{Output: "prefixed"}, "root")
	sc.Raw = true
	wantA := "[A] a" + fmt.Sprintf("%070000d", 1) + "tail\n"
	return &Unit{Name: sc.Name, Sc: sc, Bound: 1, Prune: true, Weight: 2, Check: func(x *vlab.Exec) []vlab.Violation {
		out := generic("C17", x)
		stream := ""
		for _, e := range x.Trace {
			if e.K == 'W' {
				stream += e.Line
			}
		}
		if stream != wantA+"[B] b1\n" && stream != "[B] b1\n"+wantA {
			out = append(out, vlab.V("C17", "prefixed_line", "long_line:torn", fmt.Sprintf("the stream (%d bytes, %d line breaks, starts %q) is not the one long prefixed line of A and the line of B", len(stream), strings.Count(stream, "\n"), firstN(stream, 30))))
		}
		return out
	}}
}

// error_only through the executor: the block of a command appears iff the command failed —
// also when the failure is then ignored (ignore_error on the command or on the task)
func c17ErrorOnlyIgnored(tier string) *Unit {
	pg := &Prog{Tasks: []*T{
		{Name: "root", Deps: []Ref{D("a"), D("b")}},
		{Name: "a", RawLines: []string{"cmds:", "  - cmd: printf 'a-fail\\n'; exit 3", "    ignore_error: true", "  - printf 'a-ok\\n'"}},
		{Name: "b", IgnoreError: true, RawLines: []string{"cmds:", "  - printf 'b-fail\\n'; exit 4", "  - printf 'b-ok\\n'"}},
	}}
	sc := scen("executor/group-error_only-ignored-failures", pg, vlab.Options{Output: "group", ErrorOnly: true, GroupBegin: "<{{.TASK}}", GroupEnd: ">{{.TASK}}"}, "root")
	sc.Raw = true
	check := func(x *vlab.Exec) []vlab.Violation {
		out := generic("C17", x)
		stream := ""
		for _, e := range x.Trace {
			if e.K == 'W' {
				stream += e.Line
			}
		}
		blocks := []string{"<a\na-fail\n>a\n", "<b\nb-fail\n>b\n"}
		if !isPermutationConcat(stream, blocks) {
			out = append(out, vlab.V("C17", "group_block", "group:error_only:ignored_failure", fmt.Sprintf("error_only: the stream %q must consist of exactly the blocks of the two failed (ignored) commands %q", stream, blocks)))
		}
		return out
	}
	return &Unit{Name: sc.Name, Sc: sc, Bound: 1, Prune: true, Check: check, Weight: 3}
}

// An external process that writes to stdout and stderr alternately: under output group and
// prefixed the command's bytes keep their order (both streams of a command go to one writer, so
// the process gets one pipe). Everything else in this check writes through shell builtins.
func c17ExternalProcessUnit() *Unit {
	name := "cli/external-process-alternating-streams"
	return &Unit{Name: name, Weight: 2, Custom: func(u *Unit, dir string, deadline time.Time) *vlab.UnitResult {
		res := &vlab.UnitResult{SigCounts: map[string]int{}, Extra: map[string]any{}}
		n := 0
		var samples []any
		const rounds = 150
		script := fmt.Sprintf("i=0; while [ $i -lt %d ]; do echo o$i; echo e$i >&2; i=$((i+1)); done", rounds)
		var want []string
		for i := 0; i < rounds; i++ {
			want = append(want, fmt.Sprintf("o%d", i), fmt.Sprintf("e%d", i))
		}
		for _, mode := range []string{"group", "prefixed"} {
			tf := "version: '3'\noutput: " + mode + "\ntasks:\n  t:\n    cmds:\n      - sh -c '" + script + "'\n"
			os.RemoveAll(dir)
			os.MkdirAll(dir, 0o755)
			os.WriteFile(filepath.Join(dir, "Taskfile.yml"), []byte(tf), 0o644)
			for rep := 0; rep < 3; rep++ {
				so, se, rc := RunCLI(dir, nil, "", "--silent", "t")
				n++
				// group: the whole block goes to stdout; prefixed: each line goes to the stream it came
				// from, so only the relative order within each stream can be read off from outside
				var got []string
				for _, l := range strings.Split(so, "\n") {
					l = strings.TrimSpace(strings.TrimPrefix(strings.TrimSpace(l), "[t]"))
					if l != "" {
						got = append(got, l)
					}
				}
				if len(samples) < 2 {
					samples = append(samples, map[string]any{"mode": mode, "status": rc, "first_lines": firstN(strings.Join(got, ","), 60)})
				}
				bad := ""
				switch {
				case rc != 0:
					bad = fmt.Sprintf("status %d %s", rc, firstN(se, 100))
				case mode == "group" && strings.Join(got, ",") != strings.Join(want, ","):
					bad = "the block does not hold the command's lines in the order they were written: " + firstN(strings.Join(got, ","), 120)
				case mode == "prefixed":
					var all []string
					all = append(all, got...)
					for _, l := range strings.Split(se, "\n") {
						l = strings.TrimSpace(strings.TrimPrefix(strings.TrimSpace(l), "[t]"))
						if l != "" {
							all = append(all, l)
						}
					}
					sort.Strings(all)
					w2 := append([]string{}, want...)
					sort.Strings(w2)
					if strings.Join(all, ",") != strings.Join(w2, ",") {
						bad = "lines lost or duplicated: " + firstN(strings.Join(all, ","), 120)
					}
				}
				if bad != "" {
					v := vlab.V("C17", "external_process_stream_order", mode, bad)
					v.Scenario = name
					v.Input = map[string]any{"taskfile": tf}
					res.SigCounts[v.Sig]++
					if res.SigCounts[v.Sig] == 1 {
						res.Violations = append(res.Violations, v)
					}
				}
			}
		}
		res.Extra["samples"] = samples
		res.Stats = vlab.Stats{Scenario: name, Execs: n, States: n, Transitions: n, Outcomes: 1, Exhaustive: true}
		return res
	}}
}

// Output settings and prefixes of tasks that come from included Taskfiles (CLI, no schedule):
// an included Taskfile's `output: {group: {error_only: true}}` keeps its error_only; a task of a
// non-flattened include without an explicit prefix gets its full (namespaced) name as prefix.
func c17IncludedOutputUnit() *Unit {
	name := "cli/output-settings-of-included-taskfiles"
	return &Unit{Name: name, Weight: 1, Custom: func(u *Unit, dir string, deadline time.Time) *vlab.UnitResult {
		res := &vlab.UnitResult{SigCounts: map[string]int{}, Extra: map[string]any{}}
		n := 0
		var samples []any
		add := func(v vlab.Violation, files map[string]string, args []string) {
			v.Scenario = name
			v.Input = map[string]any{"files": files, "args": args}
			res.SigCounts[v.Sig]++
			if res.SigCounts[v.Sig] == 1 {
				res.Violations = append(res.Violations, v)
			}
		}
		write := func(files map[string]string) {
			os.RemoveAll(dir)
			os.MkdirAll(dir, 0o755)
			for rel, c := range files {
				os.WriteFile(filepath.Join(dir, rel), []byte(c), 0o644)
			}
		}
		// 1. error_only declared by the included Taskfile, with and without begin/end
		for _, extra := range []string{"", ", begin: '<{{.TASK}}', end: '>{{.TASK}}'"} {
			files := map[string]string{
				"Taskfile.yml": "version: '3'\nincludes:\n  inc: ./inc.yml\ntasks:\n  ok:\n    cmds:\n      - echo root-ok-output\n  bad:\n    cmds:\n      - echo root-bad-output; exit 3\n",
				"inc.yml":      "version: '3'\noutput:\n  group: {error_only: true" + extra + "}\ntasks:\n  ok:\n    cmds:\n      - echo inc-ok-output\n",
			}
			write(files)
			for _, req := range []string{"ok", "inc:ok", "bad"} {
				args := []string{"--silent", req}
				so, se, rc := RunCLI(dir, nil, "", args...)
				n++
				if len(samples) < 3 {
					samples = append(samples, map[string]any{"request": req, "status": rc, "stdout": so})
				}
				shown := strings.Contains(so+se, "-output")
				failed := req == "bad"
				if shown != failed || (rc != 0) != failed {
					add(vlab.V("C17", "group_block", "error_only:declared_by_included_taskfile", fmt.Sprintf("request %q (command %s): output shown=%v, status %d; with error_only the block appears iff the command failed (stdout %q)", req, map[bool]string{true: "fails", false: "succeeds"}[failed], shown, rc, so)), files, args)
				}
			}
		}
		// 2. prefixes of included tasks
		files := map[string]string{
			"Taskfile.yml": "version: '3'\noutput: prefixed\nincludes:\n  a: ./lib.yml\n  b: ./lib.yml\n  f:\n    taskfile: ./lib.yml\n    flatten: true\n    excludes: [custom]\ntasks:\n  all:\n    deps: ['a:build', 'b:build', 'a:custom']\n",
			"lib.yml":      "version: '3'\ntasks:\n  build:\n    cmds:\n      - echo line-of-{{.TASK}}\n  custom:\n    prefix: mine\n    cmds:\n      - echo line-of-custom\n",
		}
		write(files)
		for _, req := range []string{"a:build", "b:build", "build", "a:custom", "all"} {
			args := []string{"--silent", req}
			so, se, rc := RunCLI(dir, nil, "", args...)
			n++
			for _, l := range strings.Split(strings.TrimSpace(so), "\n") {
				l = strings.TrimSpace(l)
				if l == "" {
					continue
				}
				want := ""
				switch {
				case strings.HasSuffix(l, "line-of-custom"):
					want = "[mine] line-of-custom"
				case strings.Contains(l, "line-of-"):
					tn := l[strings.Index(l, "line-of-")+8:]
					want = "[" + tn + "] line-of-" + tn
				}
				if l != want {
					add(vlab.V("C17", "prefixed_line", "prefix_of_included_task", fmt.Sprintf("request %q printed %q, expected %q (every line carries its task's prefix; status %d %s)", req, l, want, rc, firstN(se, 80))), files, args)
				}
			}
			if rc != 0 || strings.TrimSpace(so) == "" {
				add(vlab.V("C17", "prefixed_bytes", "lost:included_task", fmt.Sprintf("request %q: status %d, stdout %q", req, rc, so)), files, args)
			}
		}
		res.Extra["samples"] = samples
		res.Stats = vlab.Stats{Scenario: name, Execs: n, States: n, Transitions: n, Outcomes: 2, Exhaustive: true}
		return res
	}}
}
