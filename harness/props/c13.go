package props

import (
	"fmt"
	"os"
	"path/filepath"
	"runtime"
	"sort"
	"strings"
	"time"

	"github.com/go-task/task/v3/zverif/vlab"
)

func init() { registry["C13"] = c13Units }

type c13Case struct {
	name    string
	guard   func(g *T) // installs the guard on the guarded task
	gvars   [][2]string
	opts    vlab.Options
	blocked bool   // the guard must stop the task
	skip    bool   // platform mismatch: silently skipped, everything else runs, success
	code    int    // documented class when direct / through deps (0: any non-zero)
	kind    string // for signatures
	direct  string // task named on the command line instead of root (internal-task case)
}

func otherArch() string {
	if runtime.GOARCH == "amd64" {
		return "arm64"
	}
	return "amd64"
}

func c13Cases() []c13Case {
	y := vlab.Options{AssumeTerm: true, Stdin: "y\n"}
	n := vlab.Options{AssumeTerm: true, Stdin: "n\n"}
	yn := vlab.Options{AssumeTerm: true, Stdin: "y\nn\n"}
	yy := vlab.Options{AssumeTerm: true, Stdin: "y\nyes\n"}
	return []c13Case{
		{name: "platform-match", kind: "platform", guard: func(g *T) { g.Platforms = []string{"linux"} }},
		{name: "platform-exclude", kind: "platform", guard: func(g *T) { g.Platforms = []string{"windows", "darwin"} }, skip: true},
		// no single entry matches the current platform, although OS and arch each appear in some entry
		{name: "platform-cross-entries", kind: "platform", guard: func(g *T) { g.Platforms = []string{"linux/" + otherArch(), "windows/" + runtime.GOARCH} }, skip: true},
		{name: "platform-cross-entries-bare", kind: "platform", guard: func(g *T) { g.Platforms = []string{"windows", otherArch()} }, skip: true},
		// a task that is not for this platform is skipped before any of its other guards is looked at
		{name: "platform-exclude-with-missing-required-var", kind: "platform+requires", guard: func(g *T) { g.Platforms = []string{"windows"}; g.Requires = []string{"X"} }, skip: true},
		{name: "platform-exclude-with-failing-precondition", kind: "platform+precondition", guard: func(g *T) { g.Platforms = []string{"windows"}; g.Preconditions = []string{"false"} }, skip: true},
		{name: "platform-arch-exclude", kind: "platform", guard: func(g *T) { g.Platforms = []string{"linux/nonsuch"} }, blocked: true, code: 0},
		{name: "requires-present", kind: "requires", guard: func(g *T) { g.Requires = []string{"X"} }, gvars: [][2]string{{"X", "v"}}},
		{name: "requires-missing", kind: "requires", guard: func(g *T) { g.Requires = []string{"X"} }, blocked: true, code: 206},
		{name: "enum-ok", kind: "enum", guard: func(g *T) { g.RequiresEnum = [][]string{{"X", "a", "b"}} }, gvars: [][2]string{{"X", "b"}}},
		{name: "enum-violated", kind: "enum", guard: func(g *T) { g.RequiresEnum = [][]string{{"X", "a", "b"}} }, gvars: [][2]string{{"X", "c"}}, blocked: true, code: 207},
		// values that are not YAML strings (vars: {X: 3}, {X: false}) are compared by their text
		{name: "enum-int-violated", kind: "enum", guard: func(g *T) { g.RequiresEnum = [][]string{{"X", "1", "2"}} }, gvars: [][2]string{{"X", "RAW:3"}}, blocked: true, code: 207},
		{name: "enum-int-ok", kind: "enum", guard: func(g *T) { g.RequiresEnum = [][]string{{"X", "1", "2"}} }, gvars: [][2]string{{"X", "RAW:2"}}},
		{name: "enum-bool-violated", kind: "enum", guard: func(g *T) { g.RequiresEnum = [][]string{{"X", "yes", "no"}} }, gvars: [][2]string{{"X", "RAW:false"}}, blocked: true, code: 207},
		{name: "enum-missing", kind: "enum", guard: func(g *T) { g.RequiresEnum = [][]string{{"X", "a", "b"}} }, blocked: true, code: 206},
		{name: "precondition-pass", kind: "precondition", guard: func(g *T) { g.Preconditions = []string{"true"} }},
		{name: "precondition-fail", kind: "precondition", guard: func(g *T) { g.Preconditions = []string{"true", "false"} }, blocked: true},
		{name: "precondition-fail-force", kind: "precondition:force", guard: func(g *T) { g.Preconditions = []string{"false"} }, blocked: true, opts: vlab.Options{Force: true}},
		{name: "precondition-fail-forceall", kind: "precondition:forceall", guard: func(g *T) { g.Preconditions = []string{"false"} }, blocked: true, opts: vlab.Options{ForceAll: true}},
		{name: "requires-missing-forceall", kind: "requires:forceall", guard: func(g *T) { g.Requires = []string{"X"} }, blocked: true, code: 206, opts: vlab.Options{ForceAll: true}},
		{name: "prompt-accepted", kind: "prompt", guard: func(g *T) { g.Prompt = []string{"sure?"} }, opts: y},
		{name: "prompt-declined", kind: "prompt", guard: func(g *T) { g.Prompt = []string{"sure?"} }, opts: n, blocked: true, code: 205},
		{name: "prompt-no-terminal", kind: "prompt", guard: func(g *T) { g.Prompt = []string{"sure?"} }, blocked: true, code: 205},
		{name: "prompt-yes-flag", kind: "prompt", guard: func(g *T) { g.Prompt = []string{"sure?"} }, opts: vlab.Options{AssumeYes: true}},
		{name: "prompt-declined-forceall", kind: "prompt:forceall", guard: func(g *T) { g.Prompt = []string{"sure?"} }, opts: vlab.Options{AssumeTerm: true, Stdin: "n\n", ForceAll: true}, blocked: true, code: 205},
		{name: "prompt2-accept-decline", kind: "prompt2", guard: func(g *T) { g.Prompt = []string{"one?", "two?"} }, opts: yn, blocked: true, code: 205},
		{name: "prompt2-accept-accept", kind: "prompt2", guard: func(g *T) { g.Prompt = []string{"one?", "two?"} }, opts: yy},
		{name: "internal", kind: "internal", guard: func(g *T) { g.Internal = true }},
	}
}

// positions of the guarded task g
func c13Prog(pos string, c c13Case) (*Prog, []string) {
	g := &T{Name: "g", Cmds: []C{P(), P()}}
	c.guard(g)
	sib := &T{Name: "sib", Cmds: []C{P(), P()}}
	gref := Ref{Task: "g", Vars: c.gvars}
	switch pos {
	case "direct":
		// g itself is named on the command line (with its vars as call vars)
		return &Prog{Tasks: []*T{g}}, []string{"g"}
	case "dep":
		return &Prog{Tasks: []*T{
			{Name: "root", Deps: []Ref{gref, D("sib")}, Cmds: []C{P()}}, g, sib}}, []string{"root"}
	case "two-deps":
		// the same guard stops two dependencies of one task: the documented class all the same
		return &Prog{Tasks: []*T{
			{Name: "root", Deps: []Ref{gref, gref}, Cmds: []C{P()}}, g}}, []string{"root"}
	case "call":
		return &Prog{Tasks: []*T{
			{Name: "root", Deps: []Ref{D("sib")}, Cmds: []C{P(), Call("mid"), P()}},
			{Name: "mid", Cmds: []C{P(), {Call: &gref}, P()}}, g, sib}}, []string{"root"}
	case "call-from-ignoring-task":
		return &Prog{Tasks: []*T{
			{Name: "root", Deps: []Ref{D("sib")}, Cmds: []C{P(), Call("mid"), P()}},
			{Name: "mid", IgnoreError: true, Cmds: []C{P(), {Call: &gref}, P()}}, g, sib}}, []string{"root"}
	case "once-shared":
		g.Run = "once"
		gs := gref
		gs.VP = "="
		return &Prog{Tasks: []*T{
			{Name: "root", Deps: []Ref{D("a"), D("b")}, Cmds: []C{P()}},
			{Name: "a", Deps: []Ref{gs}, Cmds: []C{P()}},
			{Name: "b", Cmds: []C{{Call: &gs}, P()}}, g}}, []string{"root"}
	}
	return nil, nil
}

// c13Check: a blocking guard => no command of g runs, nothing that needs g runs afterwards, the
// status is the documented class (direct / through deps) or any failure (through a nested call);
// a platform mismatch => g silently skipped, all else runs, success; a passing guard => g runs.
func c13Check(pg *Prog, pos string, c c13Case) func(x *vlab.Exec) []vlab.Violation {
	return func(x *vlab.Exec) []vlab.Violation {
		out := generic("C13", x)
		if x.Res.Deadlock {
			return append(out, vlab.V("C13", "deadlock", c.kind+":"+pos, fmt.Sprint(x.Res.Blocked)))
		}
		ev := vlab.ParseTrace(x.Trace)
		gRan := false
		after := map[string]bool{} // tasks that ran a command needing g
		for _, e := range ev {
			if e.K != 'S' {
				continue
			}
			if e.Task == "g" {
				gRan = true
			}
			j, _ := e.CmdIndex()
			switch pos {
			case "dep", "two-deps":
				if e.Task == "root" {
					after["root"] = true
				}
			case "call", "call-from-ignoring-task":
				if (e.Task == "mid" && j == 2) || (e.Task == "root" && j == 2) {
					after[e.Task] = true
				}
			case "once-shared":
				if e.Task == "a" || e.Task == "root" || (e.Task == "b" && j == 1) {
					after[e.Task] = true
				}
			}
		}
		tag := c.kind + ":" + pos
		switch {
		case c.blocked:
			if gRan {
				out = append(out, vlab.V("C13", "guarded_task_ran", tag, "a command of the guarded task ran although its guard must stop it"))
			}
			if len(after) > 0 {
				out = append(out, vlab.V("C13", "dependent_ran", tag, fmt.Sprintf("tasks %v ran commands that come after / depend on the guarded task", vlab.SortedSet(after))))
			}
			if x.Code == 0 {
				out = append(out, vlab.V("C13", "status_zero", tag, "the guard failed but the invocation succeeded"))
			} else if c.code != 0 && (pos == "direct" || pos == "dep" || pos == "two-deps") && x.Code != c.code {
				out = append(out, vlab.V("C13", "status_class", tag+fmt.Sprintf(":got%d:want%d", x.Code, c.code), fmt.Sprintf("status %d (%s), documented class %d", x.Code, firstN(x.ErrStr, 100), c.code)))
			}
		case c.skip:
			if gRan {
				out = append(out, vlab.V("C13", "guarded_task_ran", tag, "a command of a task excluded by platforms ran"))
			}
			if x.Code != 0 {
				out = append(out, vlab.V("C13", "skip_not_silent", tag, fmt.Sprintf("platform mismatch must be a silent success, got status %d (%s)", x.Code, firstN(x.ErrStr, 100))))
			}
		default:
			if x.Code != 0 {
				out = append(out, vlab.V("C13", "spurious_block", tag, fmt.Sprintf("the guard is satisfied but the invocation failed with %d (%s)", x.Code, firstN(x.ErrStr, 100))))
			} else if !gRan {
				out = append(out, vlab.V("C13", "guarded_task_missing", tag, "the guard is satisfied, the invocation succeeded, but the task's commands did not run"))
			}
		}
		return out
	}
}

func c13Units(tier string) []*Unit {
	var us []*Unit
	for _, c := range c13Cases() {
		for _, pos := range []string{"direct", "dep", "two-deps", "call", "once-shared", "call-from-ignoring-task"} {
			c := c
			if pos == "two-deps" && !(c.blocked && c.code != 0 && (c.kind == "requires" || c.kind == "enum")) {
				continue
			}
			if pos == "call-from-ignoring-task" && !(c.blocked && (c.kind == "requires" || c.kind == "enum" || c.kind == "precondition" || c.kind == "prompt")) {
				continue // only blocking guards whose error is not an exit status: ignore_error must not swallow them
			}
			if c.kind == "internal" {
				if pos != "direct" && pos != "dep" {
					continue
				}
				if pos == "direct" {
					c.blocked, c.code = true, 202 // internal task named on the command line
				}
			}
			if (c.kind == "precondition:force") && pos != "direct" {
				continue // --force only concerns the task named on the command line
			}
			pg, roots := c13Prog(pos, c)
			sc := scen(fmt.Sprintf("%s/%s", c.name, pos), pg, c.opts, roots...)
			if pos == "direct" {
				for _, gv := range c.gvars { // (on the command line every value is a string)
					sc.Calls[0].Vars = append(sc.Calls[0].Vars, [2]string{gv[0], strings.TrimPrefix(gv[1], "RAW:")})
				}
			}
			bound := 1
			if tier == "thorough" {
				bound = 3
			}
			us = append(us, &Unit{Name: sc.Name, Sc: sc, Bound: bound, Prune: true, Check: c13Check(pg, pos, c), Weight: len(pg.Tasks)})
		}
	}
	// a run: once task whose enum guard is violated by the SECOND call (the first is fine)
	{
		g := &T{Name: "g", Run: "once", RequiresEnum: [][]string{{"X", "a", "b"}}, Cmds: []C{P()}}
		pg := &Prog{Tasks: []*T{
			{Name: "root", Cmds: []C{{Call: &Ref{Task: "g", VP: "=", Vars: [][2]string{{"X", "a"}}}}, {Call: &Ref{Task: "g", VP: "=", Vars: [][2]string{{"X", "zzz"}}}}, P()}}, g}}
		sc := scen("enum-violated-second-call-of-once/call", pg, vlab.Options{}, "root")
		us = append(us, &Unit{Name: sc.Name, Sc: sc, Bound: 1, Prune: true, Weight: 2, Check: func(x *vlab.Exec) []vlab.Violation {
			out := generic("C13", x)
			ev := vlab.ParseTrace(x.Trace)
			for _, e := range ev {
				if j, _ := e.CmdIndex(); e.K == 'S' && e.Task == "root" && j == 2 {
					out = append(out, vlab.V("C13", "dependent_ran", "enum:once-second-call", "root continued after calling a run: once task with a value outside its enum"))
				}
			}
			if x.Code == 0 {
				out = append(out, vlab.V("C13", "status_zero", "enum:once-second-call", "the second call violates the enum but the invocation succeeded"))
			}
			return out
		}})
	}
	// a templated precondition (and a templated requires/enum-free guard message) is evaluated
	// with the variables of each call: the first call passes, the second does not
	for _, via := range []string{"call", "deps"} {
		via := via
		g := &T{Name: "g", Preconditions: []string{"test {{.X}} = ok"}, Cmds: []C{P()}}
		r1, r2 := Ref{Task: "g", Vars: [][2]string{{"X", "ok"}}}, Ref{Task: "g", Vars: [][2]string{{"X", "bad"}}}
		root := &T{Name: "root", Cmds: []C{{Call: &r1}, {Call: &r2}, P()}}
		if via == "deps" {
			root = &T{Name: "root", Cmds: []C{{Call: &r1}, Call("mid"), P()}}
		}
		pg := &Prog{Tasks: []*T{root, g, {Name: "mid", Deps: []Ref{r2}, Cmds: []C{P()}}}}
		sc := scen("templated-precondition-second-call-fails/"+via, pg, vlab.Options{}, "root")
		us = append(us, &Unit{Name: sc.Name, Sc: sc, Bound: 1, Prune: true, Weight: 2, Check: func(x *vlab.Exec) []vlab.Violation {
			out := generic("C13", x)
			n := 0
			for _, e := range vlab.ParseTrace(x.Trace) {
				j, _ := e.CmdIndex()
				if e.K == 'S' && e.Task == "g" {
					n++
				}
				if e.K == 'S' && ((e.Task == "root" && j == 2) || e.Task == "mid") {
					out = append(out, vlab.V("C13", "dependent_ran", "precondition:templated-second-call", fmt.Sprintf("%s continued although the second call of g fails its precondition (test bad = ok)", e.Task)))
				}
			}
			if n != 1 {
				out = append(out, vlab.V("C13", "guarded_task_ran", "precondition:templated-second-call", fmt.Sprintf("g ran %d times: the call with X=ok must run it, the call with X=bad must not", n)))
			}
			if x.Code == 0 {
				out = append(out, vlab.V("C13", "status_zero", "precondition:templated-second-call", "the second call fails its precondition but the invocation succeeded"))
			}
			return out
		}})
	}
	us = append(us, c13IncludeInternalUnit(), c13InternalByOtherNamesUnit())
	us = append(us, c13PreconditionStateUnits()...)
	sort.SliceStable(us, func(i, j int) bool { return us[i].Name < us[j].Name })
	return us
}

// tasks that are internal because the include that brings them in says so: every combination of
// the include's internal / flatten options and of the task's own internal flag, named on the
// command line (202, nothing runs) and reached through deps (runs)
// An internal task stays uncallable from the command line whatever name is used for it: an alias,
// an alias of its include's namespace, a name matching its wildcard pattern.
func c13InternalByOtherNamesUnit() *Unit {
	name := "internal-named-by-alias-or-wildcard"
	return &Unit{Name: name, Weight: 1, Custom: func(u *Unit, dir string, deadline time.Time) *vlab.UnitResult {
		res := &vlab.UnitResult{SigCounts: map[string]int{}, Extra: map[string]any{}}
		files := map[string]string{
			"Taskfile.yml": "version: '3'\nincludes:\n  inc:\n    taskfile: ./inc.yml\n    internal: true\n    aliases: [i]\n  pub:\n    taskfile: ./pub.yml\n    aliases: [p]\ntasks:\n  hidden:\n    internal: true\n    aliases: [hd]\n    cmds:\n      - echo ran-hidden\n  'gen-*':\n    internal: true\n    cmds:\n      - echo ran-gen-{{index .MATCH 0}}\n  open:\n    aliases: [op]\n    cmds:\n      - echo ran-open\n",
			"inc.yml":      "version: '3'\ntasks:\n  default:\n    cmds:\n      - echo ran-inc-default\n  t:\n    aliases: [tt]\n    cmds:\n      - echo ran-inc-t\n",
			"pub.yml":      "version: '3'\ntasks:\n  t:\n    aliases: [tt]\n    cmds:\n      - echo ran-pub-t\n  secret:\n    internal: true\n    aliases: [sc]\n    cmds:\n      - echo ran-pub-secret\n",
		}
		os.RemoveAll(dir)
		os.MkdirAll(dir, 0o755)
		for rel, c := range files {
			os.WriteFile(filepath.Join(dir, rel), []byte(c), 0o644)
		}
		n := 0
		var samples []any
		for _, c := range []struct {
			req      string
			internal bool
			ran      string
		}{
			{"hidden", true, ""}, {"hd", true, ""}, {":hd", true, ""}, {"gen-x", true, ""}, {"open", false, "ran-open"}, {"op", false, "ran-open"},
			{"inc:t", true, ""}, {"inc:tt", true, ""}, {"i:t", true, ""}, {"i:tt", true, ""}, {"inc", true, ""}, {"i", true, ""},
			{"pub:t", false, "ran-pub-t"}, {"p:tt", false, "ran-pub-t"}, {"pub:secret", true, ""}, {"pub:sc", true, ""}, {"p:sc", true, ""},
		} {
			so, se, rc := RunCLI(dir, nil, "", "--silent", c.req)
			n++
			if len(samples) < 3 {
				samples = append(samples, map[string]any{"request": c.req, "status": rc, "stdout": strings.TrimSpace(so)})
			}
			var v *vlab.Violation
			switch {
			case c.internal && strings.Contains(so, "ran-"):
				x := vlab.V("C13", "guarded_task_ran", "internal:by_other_name", fmt.Sprintf("request %q reached an internal task and ran %q", c.req, strings.TrimSpace(so)))
				v = &x
			case c.internal && rc != 202:
				x := vlab.V("C13", "status_class", fmt.Sprintf("internal:by_other_name:got%d:want202", rc), fmt.Sprintf("request %q: status %d (%s), documented class 202", c.req, rc, firstN(se, 100)))
				v = &x
			case !c.internal && (rc != 0 || strings.TrimSpace(so) != c.ran):
				x := vlab.V("C13", "spurious_block", "internal:by_other_name", fmt.Sprintf("request %q names a task that is not internal: status %d stdout %q (%s)", c.req, rc, so, firstN(se, 100)))
				v = &x
			}
			if v != nil {
				v.Scenario = name
				v.Input = map[string]any{"files": files, "request": c.req}
				res.SigCounts[v.Sig]++
				if res.SigCounts[v.Sig] == 1 {
					res.Violations = append(res.Violations, *v)
				}
			}
		}
		res.Extra["samples"] = samples
		res.Stats = vlab.Stats{Scenario: name, Execs: n, States: n, Transitions: n, Outcomes: 2, Exhaustive: true}
		return res
	}}
}

func c13IncludeInternalUnit() *Unit {
	name := "internal-through-include-options"
	return &Unit{Name: name, Weight: 1, Custom: func(u *Unit, dir string, deadline time.Time) *vlab.UnitResult {
		res := &vlab.UnitResult{SigCounts: map[string]int{}, Extra: map[string]any{}}
		n := 0
		var samples []any
		for mask := 0; mask < 8; mask++ {
			incInternal, flatten, own := mask&1 != 0, mask&2 != 0, mask&4 != 0
			root := "version: '3'\nincludes:\n  inc:\n    taskfile: ./inc.yml\n"
			if incInternal {
				root += "    internal: true\n"
			}
			if flatten {
				root += "    flatten: true\n"
			}
			tn := "inc:t"
			if flatten {
				tn = "t"
			}
			root += "tasks:\n  viadep:\n    deps: ['" + tn + "']\n    cmds:\n      - echo ran-viadep\n"
			inc := "version: '3'\ntasks:\n  t:\n"
			if own {
				inc += "    internal: true\n"
			}
			inc += "    cmds:\n      - echo ran-t\n"
			files := map[string]string{"Taskfile.yml": root, "inc.yml": inc}
			os.RemoveAll(dir)
			os.MkdirAll(dir, 0o755)
			for rel, c := range files {
				os.WriteFile(filepath.Join(dir, rel), []byte(c), 0o644)
			}
			internal := incInternal || own
			tag := fmt.Sprintf("include_internal=%v:flatten=%v:task_internal=%v", incInternal, flatten, own)
			add := func(v vlab.Violation, args []string) {
				v.Scenario = name
				v.Input = map[string]any{"files": files, "args": args}
				res.SigCounts[v.Sig]++
				if res.SigCounts[v.Sig] == 1 {
					res.Violations = append(res.Violations, v)
				}
			}
			for _, args := range [][]string{{"--silent", tn}, {"--silent", "viadep"}} {
				so, se, rc := RunCLI(dir, nil, "", args...)
				n++
				ranT := strings.Contains(so, "ran-t")
				if len(samples) < 3 {
					samples = append(samples, map[string]any{"options": tag, "args": args, "status": rc, "stdout": so})
				}
				switch {
				case args[1] == "viadep":
					if rc != 0 || !ranT || !strings.Contains(so, "ran-viadep") {
						add(vlab.V("C13", "spurious_block", "internal:via_deps:"+tag, fmt.Sprintf("an internal task reached through deps must run: status %d stdout %q stderr %q", rc, so, firstN(se, 120))), args)
					}
				case internal:
					if ranT {
						add(vlab.V("C13", "guarded_task_ran", "internal:direct:"+tag, "an internal task named on the command line ran its commands"), args)
					}
					if rc != 202 {
						add(vlab.V("C13", "status_class", fmt.Sprintf("internal:direct:%s:got%d:want202", tag, rc), fmt.Sprintf("status %d (%s), documented class 202", rc, firstN(se, 120))), args)
					}
				default:
					if rc != 0 || !ranT {
						add(vlab.V("C13", "spurious_block", "internal:direct:"+tag, fmt.Sprintf("a task that is not internal was refused: status %d (%s)", rc, firstN(se, 120))), args)
					}
				}
			}
		}
		res.Extra["samples"] = samples
		res.Stats = vlab.Stats{Scenario: name, Execs: n, States: n, Transitions: n, Outcomes: 3, Exhaustive: true}
		return res
	}}
}

// A precondition is evaluated each time the guarded task is about to run: when a command that
// ran in between has invalidated it, the next execution of a task with the same check (the same
// task again, or another one) is stopped and the invocation fails.
func c13PreconditionStateUnits() []*Unit {
	var us []*Unit
	for _, second := range []string{"use", "use2"} {
		second := second
		line := func(task string, idx int) string {
			return fmt.Sprintf("      - printf '%%s\\n' 'P|%s|%d|{{.VP}}|'\n", task, idx)
		}
		tf := "version: '3'\ntasks:\n  root:\n    cmds:\n      - task: use\n        vars: {VP: '@>root.c0'}\n      - task: clean\n        vars: {VP: '@>root.c1'}\n      - task: " + second + "\n        vars: {VP: '@>root.c2'}\n" + line("root", 3) +
			"  use:\n    preconditions: ['test -f flag']\n    cmds:\n" + line("use", 0) +
			"  use2:\n    preconditions: ['test -f flag']\n    cmds:\n" + line("use2", 0) +
			"  clean:\n    cmds:\n      - rm -f flag\n" + line("clean", 1)
		files := map[string]string{"Taskfile.yml": tf, "flag": "x\n"}
		sc := &vlab.Scenario{Name: "precondition-invalidated-between-two-executions/" + second, Files: files, UsesFS: true,
			Calls: []vlab.CallSpec{{Task: "root", Vars: [][2]string{{"VP", "@"}}}}}
		us = append(us, &Unit{Name: sc.Name, Sc: sc, Bound: 0, Prune: false, Weight: 1, Check: func(x *vlab.Exec) []vlab.Violation {
			out := generic("C13", x)
			ran := map[string]bool{}
			for _, e := range vlab.ParseTrace(x.Trace) {
				if e.K == 'S' && e.Task != "" {
					ran[e.Task+"@"+e.VP] = true
				}
			}
			tag := "precondition:after_state_change:" + map[bool]string{true: "same_task", false: "other_task"}[second == "use"]
			if !ran["use@@>root.c0"] || !ran["clean@@>root.c1"] {
				out = append(out, vlab.V("C13", "guarded_task_missing", tag, fmt.Sprintf("the first execution (precondition holds) or the cleaning task did not run: %v", ran)))
			}
			if ran[second+"@@>root.c2"] {
				out = append(out, vlab.V("C13", "guarded_task_ran", tag, "the precondition 'test -f flag' no longer holds (the file was removed by the task that ran in between) but the task's commands ran"))
			}
			if ran["root@@"] {
				out = append(out, vlab.V("C13", "dependent_ran", tag, "the caller continued after the call whose precondition failed"))
			}
			if x.Code == 0 {
				out = append(out, vlab.V("C13", "status_zero", tag, "a precondition failed but the invocation succeeded"))
			}
			return out
		}})
	}
	return us
}
