package props

import (
	"crypto/sha1"
	"fmt"
	"os"
	"path/filepath"
	"sort"
	"strings"
	"time"

	"github.com/go-task/task/v3/zverif/vlab"
)

// Engine B: explicit-state breadth-first search over histories of file operations and real
// CLI invocations on a real project directory. A state is (directory snapshot, model); a
// transition applies one event to a restored snapshot.

type fileSnap struct {
	Content []byte
	Mtime   time.Time
	Dir     bool
	Link    string // target of a symbolic link ("" = not a link)
}

type snapshot map[string]fileSnap

func takeSnapshot(root string) snapshot {
	s := snapshot{}
	filepath.Walk(root, func(p string, info os.FileInfo, err error) error {
		if err != nil || p == root {
			return nil
		}
		rel, _ := filepath.Rel(root, p)
		if info.IsDir() {
			s[rel] = fileSnap{Dir: true, Mtime: info.ModTime()}
			return nil
		}
		if info.Mode()&os.ModeSymlink != 0 {
			target, _ := os.Readlink(p)
			s[rel] = fileSnap{Link: target, Content: []byte("-> " + target)}
			return nil
		}
		b, _ := os.ReadFile(p)
		s[rel] = fileSnap{Content: b, Mtime: info.ModTime()}
		return nil
	})
	return s
}

func (s snapshot) restore(root string) {
	os.RemoveAll(root)
	os.MkdirAll(root, 0o755)
	var names []string
	for n := range s {
		names = append(names, n)
	}
	sort.Strings(names)
	for _, n := range names {
		f := s[n]
		p := filepath.Join(root, n)
		if f.Dir {
			os.MkdirAll(p, 0o755)
			continue
		}
		os.MkdirAll(filepath.Dir(p), 0o755)
		if f.Link != "" {
			os.Symlink(f.Link, p)
			continue
		}
		os.WriteFile(p, f.Content, 0o644)
	}
	// mtimes last (writing children changes directory mtimes); deepest first
	sort.Slice(names, func(i, j int) bool { return len(names[i]) > len(names[j]) })
	for _, n := range names {
		f := s[n]
		if f.Link != "" {
			continue
		}
		os.Chtimes(filepath.Join(root, n), f.Mtime, f.Mtime)
	}
}

// diff lists what differs between two snapshots (names, contents, mtimes of files; directories
// only by existence).
func (s snapshot) diff(o snapshot) []string {
	var out []string
	for n, f := range s {
		g, ok := o[n]
		if !ok {
			out = append(out, "removed:"+n)
			continue
		}
		if f.Dir != g.Dir {
			out = append(out, "type:"+n)
		}
		if f.Dir {
			continue
		}
		if string(f.Content) != string(g.Content) {
			out = append(out, "content:"+n)
		} else if !f.Mtime.Equal(g.Mtime) {
			out = append(out, "mtime:"+n)
		}
	}
	for n := range o {
		if _, ok := s[n]; !ok {
			out = append(out, "created:"+n)
		}
	}
	sort.Strings(out)
	return out
}

// canon: sorted (path, content hash) + the order type of the files' mtimes + model key.
func (s snapshot) canon(ignore func(string) bool) string {
	type ft struct {
		n string
		t time.Time
	}
	var fs []ft
	var parts []string
	for n, f := range s {
		if f.Dir || (ignore != nil && ignore(n)) {
			continue
		}
		parts = append(parts, fmt.Sprintf("%s=%x", n, sha1.Sum(f.Content)))
		fs = append(fs, ft{n, f.Mtime})
	}
	sort.Strings(parts)
	sort.Slice(fs, func(i, j int) bool {
		if !fs[i].t.Equal(fs[j].t) {
			return fs[i].t.Before(fs[j].t)
		}
		return fs[i].n < fs[j].n
	})
	rank := ""
	for i, f := range fs {
		sep := "<"
		if i > 0 && f.t.Equal(fs[i-1].t) {
			sep = "="
		}
		rank += sep + f.n
	}
	return strings.Join(parts, ";") + "|" + rank
}

// tick waits until a freshly written file's mtime is strictly later than everything in the
// snapshot and than the previous call (kernel mtime may lag time.Now()).
var lastTick time.Time

func tick(dir string) {
	probe := filepath.Join(dir, ".tick")
	for i := 0; i < 2000; i++ {
		os.WriteFile(probe, []byte("x"), 0o644)
		st, err := os.Stat(probe)
		if err == nil && st.ModTime().After(lastTick) && time.Now().After(lastTick) {
			lastTick = st.ModTime()
			if time.Now().After(lastTick) {
				lastTick = time.Now()
			}
			break
		}
		time.Sleep(200 * time.Microsecond)
	}
	os.Remove(probe)
	time.Sleep(1500 * time.Microsecond)
}

type hModel interface {
	Key() string
	Clone() hModel
}

type hObs struct {
	Code   int
	Stdout string
	Stderr string
	Before snapshot
	After  snapshot
}

type hEvent struct {
	Name string
	// Enabled may restrict where the event applies.
	Enabled func(s snapshot, m hModel) bool
	// Apply performs the event in dir and updates the model; it returns violations.
	Apply func(dir string, m hModel, hist []string) []vlab.Violation
}

type hConfig struct {
	Name     string
	Init     func(dir string) hModel // writes the initial project, returns the initial model
	Events   []hEvent
	Depth    int
	Ignore   func(path string) bool // files that are not part of the state key
	MaxTrans int
}

type hNode struct {
	snap  snapshot
	model hModel
	hist  []string
}

func runHist(cfg hConfig, dir string, deadline time.Time) *vlab.UnitResult {
	res := &vlab.UnitResult{SigCounts: map[string]int{}, Extra: map[string]any{}}
	start := time.Now()
	os.MkdirAll(dir, 0o755)
	m0 := cfg.Init(dir)
	tick(dir)
	root := &hNode{snap: takeSnapshot(dir), model: m0}
	seen := map[string]bool{root.snap.canon(cfg.Ignore) + "#" + m0.Key(): true}
	frontier := []*hNode{root}
	trans := 0
	exhaustive := true
	var samples []any
	maxDepth := 0
	for depth := 0; depth < cfg.Depth && len(frontier) > 0; depth++ {
		var next []*hNode
		for _, n := range frontier {
			for _, ev := range cfg.Events {
				if ev.Enabled != nil && !ev.Enabled(n.snap, n.model) {
					continue
				}
				if (!deadline.IsZero() && time.Now().After(deadline)) || (cfg.MaxTrans > 0 && trans >= cfg.MaxTrans) {
					exhaustive = false
					goto done
				}
				n.snap.restore(dir)
				tick(dir)
				m := n.model.Clone()
				hist := append(append([]string{}, n.hist...), ev.Name)
				vs := ev.Apply(dir, m, hist)
				trans++
				for _, v := range vs {
					v.Scenario = cfg.Name
					v.Input = map[string]any{"history": hist}
					v.Trace = hist
					res.SigCounts[v.Sig]++
					if res.SigCounts[v.Sig] == 1 {
						res.Violations = append(res.Violations, v)
					}
				}
				snap := takeSnapshot(dir)
				key := snap.canon(cfg.Ignore) + "#" + m.Key()
				if len(samples) < 3 && len(hist) == cfg.Depth {
					samples = append(samples, map[string]any{"history": hist, "model": m.Key()})
				}
				if seen[key] {
					continue
				}
				seen[key] = true
				next = append(next, &hNode{snap: snap, model: m, hist: hist})
				if len(hist) > maxDepth {
					maxDepth = len(hist)
				}
			}
		}
		frontier = next
	}
done:
	if len(samples) == 0 {
		samples = append(samples, map[string]any{"history": []string{"(initial state only)"}})
	}
	res.Extra["samples"] = samples
	res.Extra["depth"] = cfg.Depth
	res.Extra["max_depth_reached"] = maxDepth
	res.Stats = vlab.Stats{Scenario: cfg.Name, Execs: trans, States: len(seen), Transitions: trans, Outcomes: len(seen), Exhaustive: exhaustive, Completed: cfg.Depth, Bound: cfg.Depth, WallS: time.Since(start).Seconds()}
	if !exhaustive {
		res.Stats.Completed = maxDepth - 1
	}
	return res
}
