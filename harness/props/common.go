// Package props holds, per property, the scenarios and oracles (what is enumerated and what
// is demanded of every execution).
package props

import (
	"fmt"

	"github.com/go-task/task/v3/zverif/vlab"
)

type (
	Prog = vlab.Prog
	T    = vlab.T
	C    = vlab.C
	Ref  = vlab.Ref
	Unit = vlab.Unit
)

var registry = map[string]func(tier string) []*Unit{}

func Units(prop, tier string) []*Unit {
	f := registry[prop]
	if f == nil {
		return nil
	}
	return f(tier)
}

// P is a succeeding probe, F a probe that exits with code 3.
func P() C       { return C{} }
func F() C       { return C{Exit: 3} }
func Fx(n int) C { return C{Exit: n} }
func Call(t string) C {
	return C{Call: &Ref{Task: t}}
}
func CallS(t, vp string) C { return C{Call: &Ref{Task: t, VP: vp}} }
func D(t string) Ref       { return Ref{Task: t} }
func DS(t, vp string) Ref  { return Ref{Task: t, VP: vp} }

func scen(name string, pg *Prog, opts vlab.Options, calls ...string) *vlab.Scenario {
	sc := &vlab.Scenario{Name: name, Files: map[string]string{"Taskfile.yml": pg.YAML()}, Opts: opts, Spec: pg}
	for _, c := range calls {
		sc.Calls = append(sc.Calls, vlab.CallSpec{Task: c, Vars: [][2]string{{"VP", "@"}}})
	}
	return sc
}

func concName(n int) string {
	if n == 0 {
		return "inf"
	}
	return fmt.Sprint(n)
}

// harnessIssues reports panics / horizon hits as violations of C16/C07 style clauses for any
// property (a panic of the code under test is never silently dropped).
func generic(prop string, x *vlab.Exec) []vlab.Violation {
	var out []vlab.Violation
	if x.Res.Panic != "" {
		out = append(out, vlab.V(prop, "panic", "", "code under test panicked: "+x.Res.Panic))
	}
	return out
}

// boundFor picks the preemption bound (and the number of shards) for a program of ntasks
// tasks under concurrency limit conc; -1 means "not in this tier".
func boundFor(tier string, ntasks, conc int) (bound, shards int) {
	if tier == "thorough" {
		switch {
		case ntasks <= 4 && conc == 0:
			return 4, 8
		case ntasks <= 4:
			return 3, 8
		case conc == 0:
			return 3, 16
		default:
			return 2, 16
		}
	}
	switch {
	case ntasks <= 4:
		return 2, 1
	case conc == 0 && ntasks <= 5:
		return 2, 4
	case conc == 2:
		return -1, 0
	default:
		return 1, 1
	}
}
