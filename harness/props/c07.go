package props

import (
	"fmt"
	"sort"
	"strings"

	"github.com/go-task/task/v3/zverif/vlab"
)

func init() { registry["C07"] = c07Units }

// c07Check:
//
//	bound        at every instant the number of commands in flight (started, not finished) <= N
//	deadlock     the scheduler's exact condition: unfinished threads, none enabled
//	termination  within the step horizon; a successful invocation has run all required work
func c07Check(pg *Prog, n int, allSucceed bool) func(x *vlab.Exec) []vlab.Violation {
	return func(x *vlab.Exec) []vlab.Violation {
		out := generic("C07", x)
		if x.Res.Deadlock {
			out = append(out, vlab.V("C07", "deadlock", fmt.Sprintf("N=%s", concName(n)), fmt.Sprintf("no thread enabled while some are unfinished: %v", x.Res.Blocked)))
			return out
		}
		if x.Res.Horizon {
			out = append(out, vlab.V("C07", "no_termination_within_horizon", "", "execution exceeded the step horizon"))
			return out
		}
		ev := vlab.ParseTrace(x.Trace)
		inflight := 0
		for _, e := range ev {
			if e.Task == "" {
				continue
			}
			if e.K == 'S' {
				inflight++
				if n > 0 && inflight > n {
					out = append(out, vlab.V("C07", "limit_exceeded", fmt.Sprintf("N=%d", n), fmt.Sprintf("%d commands in flight at position %d with --concurrency %d", inflight, e.Pos, n)))
					break
				}
			} else if e.K == 'F' {
				inflight--
			}
		}
		if allSucceed {
			if x.Code != 0 {
				out = append(out, vlab.V("C07", "spurious_failure", "", fmt.Sprintf("all commands succeed but the invocation ended with status %d (%s)", x.Code, x.ErrStr)))
			} else {
				ti := vlab.IndexTrace(ev)
				if st := pg.Completed(ti, vlab.Inst{Task: "root", VP: "@"}, len(ev)+1, 0); st != vlab.StOK {
					out = append(out, vlab.V("C07", "work_missing", "", "the invocation succeeded but not all required commands ran"))
				}
			}
		}
		return out
	}
}

// overlapGoal: names of pairs (a,b) of tasks whose commands were observed in flight together.
func overlapGoal(pairs [][2]string) func(x *vlab.Exec) []string {
	return func(x *vlab.Exec) []string {
		ev := vlab.ParseTrace(x.Trace)
		open := map[string]int{}
		seen := map[string]bool{}
		for _, e := range ev {
			if e.Task == "" {
				continue
			}
			if e.K == 'S' {
				open[e.Task]++
				for _, p := range pairs {
					if open[p[0]] > 0 && open[p[1]] > 0 {
						seen[p[0]+"||"+p[1]] = true
					}
				}
			} else if e.K == 'F' {
				open[e.Task]--
			}
		}
		var out []string
		for k := range seen {
			out = append(out, k)
		}
		sort.Strings(out)
		return out
	}
}

type c07Spec struct {
	fails bool
	pg    *Prog
	pairs [][2]string // independent tasks that must be able to overlap when N >= 2
	roots []string
	par   bool
}

func c07Specs() map[string]*c07Spec {
	m := map[string]*c07Spec{}
	m["chain4"] = &c07Spec{pg: &Prog{Tasks: []*T{
		{Name: "root", Deps: []Ref{D("a")}, Cmds: []C{P()}},
		{Name: "a", Deps: []Ref{D("b")}, Cmds: []C{P()}},
		{Name: "b", Deps: []Ref{D("c")}, Cmds: []C{P()}},
		{Name: "c", Cmds: []C{P()}},
	}}}
	m["fanout3"] = &c07Spec{pg: &Prog{Tasks: []*T{
		{Name: "root", Deps: []Ref{D("a"), D("b"), D("c")}, Cmds: []C{P()}},
		{Name: "a", Cmds: []C{P()}},
		{Name: "b", Cmds: []C{P()}},
		{Name: "c", Cmds: []C{P()}},
	}}, pairs: [][2]string{{"a", "b"}, {"a", "c"}, {"b", "c"}}}
	m["diamond-once"] = &c07Spec{pg: &Prog{Tasks: []*T{
		{Name: "root", Deps: []Ref{D("a"), D("b")}, Cmds: []C{P()}},
		{Name: "a", Deps: []Ref{DS("s", "=")}, Cmds: []C{P()}},
		{Name: "b", Deps: []Ref{DS("s", "=")}, Cmds: []C{P()}},
		{Name: "s", Run: "once", Cmds: []C{P()}},
	}}, pairs: [][2]string{{"a", "b"}}}
	m["calls-in-deps"] = &c07Spec{pg: &Prog{Tasks: []*T{
		{Name: "root", Deps: []Ref{D("a"), D("b")}, Cmds: []C{Call("x"), P()}},
		{Name: "a", Cmds: []C{P(), Call("x")}},
		{Name: "b", Cmds: []C{Call("x"), P()}},
		{Name: "x", Deps: []Ref{D("y")}, Cmds: []C{P()}},
		{Name: "y", Cmds: []C{P()}},
	}}, pairs: [][2]string{{"a", "b"}}}
	m["once-via-call-and-dep"] = &c07Spec{pg: &Prog{Tasks: []*T{
		{Name: "root", Deps: []Ref{D("a"), D("b")}, Cmds: []C{CallS("s", "="), P()}},
		{Name: "a", Cmds: []C{CallS("s", "="), P()}},
		{Name: "b", Deps: []Ref{DS("s", "=")}, Cmds: []C{P()}},
		{Name: "s", Run: "once", Deps: []Ref{D("leaf")}, Cmds: []C{P()}},
		{Name: "leaf", Cmds: []C{P()}},
	}}}
	m["fail-nested"] = &c07Spec{fails: true, pg: &Prog{Tasks: []*T{
		{Name: "root", Deps: []Ref{D("p"), D("f")}, Cmds: []C{P()}},
		{Name: "p", Deps: []Ref{D("slow")}, Cmds: []C{Call("slow"), P()}},
		{Name: "slow", Cmds: []C{P(), P()}},
		{Name: "f", Cmds: []C{P(), F()}},
	}}}
	m["fail-shared-once"] = &c07Spec{fails: true, pg: &Prog{Tasks: []*T{
		{Name: "root", Deps: []Ref{D("a"), D("b")}, Cmds: []C{P()}},
		{Name: "a", IgnoreError: true, Cmds: []C{CallS("s", "="), P()}},
		{Name: "b", Deps: []Ref{DS("s", "=")}, Cmds: []C{P()}},
		{Name: "s", Run: "once", Cmds: []C{P(), F()}},
	}}}
	// deferred task calls hand the caller's slot back like ordinary task calls do
	m["deferred-task-calls"] = &c07Spec{pg: &Prog{Tasks: []*T{
		{Name: "root", Deps: []Ref{D("a"), D("b")}, Cmds: []C{{Defer: true, Call: &Ref{Task: "x"}}, P()}},
		{Name: "a", Cmds: []C{{Defer: true, Call: &Ref{Task: "x"}}, P()}},
		{Name: "b", Cmds: []C{{Defer: true, Call: &Ref{Task: "x"}}, P()}},
		{Name: "x", Cmds: []C{P()}},
	}}, pairs: [][2]string{{"a", "b"}}}
	// two of three deps are parked on a shared run-once task (their slots handed back): the third,
	// independent dep is not held up by them
	m["two-deps-parked-on-shared-third-independent"] = &c07Spec{pg: &Prog{Tasks: []*T{
		{Name: "root", Deps: []Ref{D("a"), D("b"), D("c")}, Cmds: []C{P()}},
		{Name: "a", Deps: []Ref{DS("gate", "=")}, Cmds: []C{P()}},
		{Name: "b", Deps: []Ref{DS("gate", "=")}, Cmds: []C{P()}},
		{Name: "c", Cmds: []C{P()}},
		{Name: "gate", Run: "once", Cmds: []C{P()}},
	}}, pairs: [][2]string{{"c", "gate"}}}
	m["parallel-roots"] = &c07Spec{pg: &Prog{Tasks: []*T{
		{Name: "root", Deps: []Ref{DS("s", "=")}, Cmds: []C{P()}},
		{Name: "r2", Deps: []Ref{DS("s", "=")}, Cmds: []C{P()}},
		{Name: "s", Run: "once", Cmds: []C{P(), P()}},
	}}, roots: []string{"root", "r2"}, par: true, pairs: [][2]string{{"root", "r2"}}}
	return m
}

func c07Units(tier string) []*Unit {
	var us []*Unit
	specs := c07Specs()
	var names []string
	for k := range specs {
		names = append(names, k)
	}
	sort.Strings(names)
	for _, name := range names {
		sp := specs[name]
		ns := []int{0, 1, 2, 3}
		for _, n := range ns {
			bound, shards := boundFor(tier, len(sp.pg.Tasks), n)
			if n == 3 {
				bound, shards = boundFor(tier, len(sp.pg.Tasks), 2)
				if tier != "thorough" && name != "fanout3" {
					continue
				}
			}
			if bound < 0 {
				if n == 2 && tier != "thorough" {
					bound, shards = 1, 1
				} else {
					continue
				}
			}
			roots := sp.roots
			if roots == nil {
				roots = []string{"root"}
			}
			sc := scen(fmt.Sprintf("%s/N%s", name, concName(n)), sp.pg, vlab.Options{Concurrency: n, Parallel: sp.par}, roots...)
			u := &Unit{Name: sc.Name, Sc: sc, Bound: bound, Prune: true, Check: both(c07Check(sp.pg, n, !sp.fails), c01Check(sp.pg)), Weight: len(sp.pg.Tasks)*10 + n, Shards: shards}
			if len(sp.pairs) > 0 && (n == 0 || n >= 2) {
				pairs := sp.pairs
				u.Goal = overlapGoal(pairs)
				for _, p := range pairs {
					u.Required = append(u.Required, p[0]+"||"+p[1])
				}
				u.ReqProp = "C07:no_parallelism"
				u.ReqMsg = "independent tasks never had commands in flight together in any explored schedule although the limit allows it"
			}
			us = append(us, u)
		}
	}
	if tier == "thorough" {
		us = append(us, taskgraphUnits("taskgraph3", []int{1}, 2)...)
	}
	// run-once tasks of an included Taskfile whose names share the last segment, one depending
	// on the other: two executions, no waiting on oneself
	for _, n := range []int{0, 1} {
		files := map[string]string{
			"Taskfile.yml": "version: '3'\nincludes:\n  inc: ./inc.yml\ntasks:\n  root:\n    deps: ['inc:build']\n    cmds:\n      - printf '%s\\n' 'P|root|0|@|'\n",
			"inc.yml": "version: '3'\ntasks:\n  'build':\n    run: once\n    deps: ['docker:build']\n    cmds:\n      - printf '%s\\n' 'P|inc:build|0|=|'\n" +
				"  'docker:build':\n    run: once\n    cmds:\n      - printf '%s\\n' 'P|inc:docker:build|0|=|'\n",
		}
		pg := &Prog{Tasks: []*T{
			{Name: "root", Deps: []Ref{DS("inc:build", "=")}, Cmds: []C{P()}},
			{Name: "inc:build", Run: "once", Deps: []Ref{DS("inc:docker:build", "=")}, Cmds: []C{P()}},
			{Name: "inc:docker:build", Run: "once", Cmds: []C{P()}},
		}}
		sc := &vlab.Scenario{Name: "once-in-include-dep-on-same-last-segment/N" + concName(n), Files: files, Spec: pg, Opts: vlab.Options{Concurrency: n},
			Calls: []vlab.CallSpec{{Task: "root", Vars: [][2]string{{"VP", "@"}}}}}
		us = append(us, &Unit{Name: sc.Name, Sc: sc, Bound: 1, Prune: true, Check: both(c07Check(pg, n, true), c01Check(pg)), Weight: 3})
	}
	// cyclic references: must end with 204 (or 201 wrapping it), not hang. One default schedule
	// plus the bound-1 schedules (1000 nested calls per execution).
	cyc := map[string]*Prog{
		"cycle-self-dep": {Tasks: []*T{{Name: "root", Deps: []Ref{{Task: "root", VP: "@"}}, Cmds: []C{P()}}}},
		"cycle-2-deps":   {Tasks: []*T{{Name: "root", Deps: []Ref{{Task: "a", VP: "@"}}, Cmds: []C{P()}}, {Name: "a", Deps: []Ref{{Task: "root", VP: "@"}}}}},
		"cycle-watch-tasks": {Tasks: []*T{{Name: "root", Cmds: []C{{Call: &Ref{Task: "ping", VP: "@"}}}},
			{Name: "ping", RawLines: []string{"watch: true"}, Cmds: []C{{Call: &Ref{Task: "pong", VP: "@"}}}},
			{Name: "pong", RawLines: []string{"watch: true"}, Cmds: []C{{Call: &Ref{Task: "ping", VP: "@"}}}}}},
		// cycles through deduplicated tasks: the second arrival must not wait for an execution
		// that is waiting for it
		"cycle-self-dep-once":        {Tasks: []*T{{Name: "root", Run: "once", Deps: []Ref{{Task: "root", VP: "@"}}, Cmds: []C{P()}}}},
		"cycle-2-deps-once":          {Tasks: []*T{{Name: "root", Deps: []Ref{{Task: "a", VP: "@"}}, Cmds: []C{P()}}, {Name: "a", Run: "once", Deps: []Ref{{Task: "b", VP: "@"}}}, {Name: "b", Run: "once", Deps: []Ref{{Task: "a", VP: "@"}}}}},
		"cycle-2-calls-when-changed": {Tasks: []*T{{Name: "root", Cmds: []C{{Call: &Ref{Task: "a", VP: "@"}}}}, {Name: "a", Run: "when_changed", Cmds: []C{{Call: &Ref{Task: "b", VP: "@"}}}}, {Name: "b", Run: "when_changed", Cmds: []C{{Call: &Ref{Task: "a", VP: "@"}}}}}},
		"cycle-2-calls":              {Tasks: []*T{{Name: "root", Cmds: []C{{Call: &Ref{Task: "a", VP: "@"}}}}, {Name: "a", Cmds: []C{{Call: &Ref{Task: "root", VP: "@"}}}}}},
		// the cycle is entered at two points at once: each of the two executions ends up waiting for
		// the other one
		"cycle-2-deps-once-two-entries": {Tasks: []*T{{Name: "root", Deps: []Ref{{Task: "a", VP: "@"}, {Task: "b", VP: "@"}}, Cmds: []C{P()}}, {Name: "a", Run: "once", Deps: []Ref{{Task: "b", VP: "@"}}}, {Name: "b", Run: "once", Deps: []Ref{{Task: "a", VP: "@"}}}}},
		"cycle-3-deps-once-two-entries": {Tasks: []*T{{Name: "root", Deps: []Ref{{Task: "a", VP: "@"}, {Task: "h", VP: "@"}}, Cmds: []C{P()}},
			{Name: "a", Run: "once", Deps: []Ref{{Task: "x", VP: "@"}}}, {Name: "x", Run: "once", Deps: []Ref{{Task: "h", VP: "@"}}}, {Name: "h", Run: "once", Deps: []Ref{{Task: "a", VP: "@"}}}}},
		// the cycle closes through a deferred task call (errors of deferred commands are ignored, so
		// only termination is required of these)
		"cycle-deferred-self-call-once": {Tasks: []*T{{Name: "root", Run: "once", Cmds: []C{{Defer: true, Call: &Ref{Task: "root", VP: "@"}}, P()}}}},
		"cycle-deferred-2-calls-once": {Tasks: []*T{{Name: "root", Cmds: []C{{Call: &Ref{Task: "a", VP: "@"}}}},
			{Name: "a", Run: "once", Cmds: []C{{Defer: true, Call: &Ref{Task: "b", VP: "@"}}, P()}}, {Name: "b", Run: "once", Cmds: []C{{Call: &Ref{Task: "a", VP: "@"}}}}}},
		"cycle-deferred-self-call": {Tasks: []*T{{Name: "root", Cmds: []C{{Defer: true, Call: &Ref{Task: "root", VP: "@"}}, P()}}}},
	}
	// a cycle through a wildcard task whose match changes on every round
	for _, n := range []int{0, 1} {
		files := map[string]string{"Taskfile.yml": "version: '3'\ntasks:\n  root:\n    cmds:\n      - task: step-a\n  step-*:\n    cmds:\n      - task: 'step-{{index .MATCH 0}}x'\n"}
		sc := &vlab.Scenario{Name: "cycle-wildcard-growing-match/N" + concName(n), Files: files, Opts: vlab.Options{Concurrency: n}, Calls: []vlab.CallSpec{{Task: "root"}}}
		us = append(us, &Unit{Name: sc.Name, Sc: sc, Bound: 0, Prune: false, Weight: 1, Check: func(x *vlab.Exec) []vlab.Violation {
			out := generic("C07", x)
			if x.Res.Deadlock {
				return append(out, vlab.V("C07", "deadlock", "cycle", fmt.Sprintf("cyclic reference deadlocked: %v", x.Res.Blocked)))
			}
			if x.Res.Horizon {
				return append(out, vlab.V("C07", "no_termination_within_horizon", "cycle", "cyclic reference did not end within the step horizon"))
			}
			if x.Code != 204 && x.Code != 201 {
				out = append(out, vlab.V("C07", "cycle_status", fmt.Sprintf("got%d", x.Code), fmt.Sprintf("cyclic reference ended with status %d (%s), expected 204 or 201", x.Code, firstN(x.ErrStr, 120))))
			}
			return out
		}})
	}
	// a task whose dir cannot be created (a dangling symbolic link), needed twice: both calls end
	// (with an error), nobody waits for anybody
	for _, n := range []int{0, 1} {
		files := map[string]string{
			"bad": "SYMLINK:/nonexistent-verif-dir/sub",
			"Taskfile.yml": "version: '3'\ntasks:\n  root:\n    deps:\n      - task: t\n        vars: {A: '1'}\n      - task: t\n        vars: {A: '2'}\n  seq:\n    ignore_error: true\n    cmds:\n      - task: t\n        vars: {A: '1'}\n      - task: t\n        vars: {A: '2'}\n" +
				"  t:\n    dir: bad\n    cmds:\n      - printf '%s\\n' 'P|t|0|{{.A}}|'\n",
		}
		for _, call := range []string{"root", "seq"} {
			sc := &vlab.Scenario{Name: "dir-that-cannot-be-created-needed-twice/" + call + "/N" + concName(n), Files: files, UsesFS: true, Opts: vlab.Options{Concurrency: n}, Calls: []vlab.CallSpec{{Task: call}}}
			us = append(us, &Unit{Name: sc.Name, Sc: sc, Bound: 1, Prune: false, Weight: 1, Check: func(x *vlab.Exec) []vlab.Violation {
				out := generic("C07", x)
				if x.Res.Deadlock {
					out = append(out, vlab.V("C07", "deadlock", "uncreatable_dir", fmt.Sprintf("no thread enabled while some are unfinished: %v", x.Res.Blocked)))
				}
				if x.Res.Horizon {
					out = append(out, vlab.V("C07", "no_termination_within_horizon", "uncreatable_dir", "execution exceeded the step horizon"))
				}
				return out
			}})
		}
	}
	// a task that stops at its prompt (declined, or no terminal) under a concurrency limit: the
	// invocation ends (205), it does not wait for a slot of its own
	for _, v := range []struct {
		name string
		opts vlab.Options
		pos  string
	}{
		{"declined", vlab.Options{AssumeTerm: true, Stdin: "n\n", Concurrency: 1}, "direct"},
		{"no-terminal", vlab.Options{Concurrency: 1}, "direct"},
		{"declined", vlab.Options{AssumeTerm: true, Stdin: "n\n", Concurrency: 1}, "dep"},
		{"declined", vlab.Options{AssumeTerm: true, Stdin: "n\n", Concurrency: 2}, "call"},
	} {
		v := v
		g := &T{Name: "g", Prompt: []string{"sure?"}, Cmds: []C{P()}}
		pg := &Prog{Tasks: []*T{g}}
		root := "g"
		switch v.pos {
		case "dep":
			pg = &Prog{Tasks: []*T{{Name: "root", Deps: []Ref{D("g"), D("o")}, Cmds: []C{P()}}, g, {Name: "o", Cmds: []C{P()}}}}
			root = "root"
		case "call":
			pg = &Prog{Tasks: []*T{{Name: "root", Deps: []Ref{D("o")}, Cmds: []C{Call("g"), P()}}, g, {Name: "o", Cmds: []C{P()}}}}
			root = "root"
		}
		sc := scen(fmt.Sprintf("prompt-%s-under-concurrency-limit/%s/N%d", v.name, v.pos, v.opts.Concurrency), pg, v.opts, root)
		us = append(us, &Unit{Name: sc.Name, Sc: sc, Bound: 1, Prune: true, Weight: 1, Check: func(x *vlab.Exec) []vlab.Violation {
			out := generic("C07", x)
			if x.Res.Deadlock {
				return append(out, vlab.V("C07", "deadlock", "prompt_"+v.name, fmt.Sprintf("no thread enabled while some are unfinished: %v", x.Res.Blocked)))
			}
			if x.Res.Horizon {
				return append(out, vlab.V("C07", "no_termination_within_horizon", "prompt_"+v.name, "execution exceeded the step horizon"))
			}
			if x.Code != 205 && x.Code != 201 {
				out = append(out, vlab.V("C07", "prompt_status", fmt.Sprintf("got%d", x.Code), fmt.Sprintf("a task stopped at its prompt but the invocation ended with status %d (%s)", x.Code, firstN(x.ErrStr, 100))))
			}
			return out
		}})
	}
	var cn []string
	for k := range cyc {
		cn = append(cn, k)
	}
	sort.Strings(cn)
	for _, name := range cn {
		pg := cyc[name]
		for _, n := range []int{0, 1} {
			sc := scen(fmt.Sprintf("%s/N%s", name, concName(n)), pg, vlab.Options{Concurrency: n}, "root")
			b := 0
			if strings.Contains(name, "two-entries") {
				b = 2 // which of the two executions registers, waits and notices first is the point here
				if strings.Contains(name, "cycle-3") && tier != "thorough" {
					b = 1
				}
			}
			us = append(us, &Unit{Name: sc.Name, Sc: sc, Bound: b, Prune: false, Weight: 1, Check: func(x *vlab.Exec) []vlab.Violation {
				out := generic("C07", x)
				if x.Res.Deadlock {
					return append(out, vlab.V("C07", "deadlock", "cycle", fmt.Sprintf("cyclic reference deadlocked: %v", x.Res.Blocked)))
				}
				if x.Res.Horizon {
					return append(out, vlab.V("C07", "no_termination_within_horizon", "cycle", "cyclic reference did not end within the step horizon"))
				}
				if x.Code != 204 && x.Code != 201 && !strings.HasPrefix(name, "cycle-deferred") {
					out = append(out, vlab.V("C07", "cycle_status", fmt.Sprintf("got%d", x.Code), fmt.Sprintf("cyclic reference ended with status %d (%s), expected 204 or 201", x.Code, firstN(x.ErrStr, 120))))
				}
				return out
			}})
		}
	}
	return us
}
