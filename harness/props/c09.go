package props

import (
	"fmt"
	"sort"
	"strings"
	"sync"

	"github.com/go-task/task/v3/zverif/vlab"
)

func init() { registry["C09"] = c09Units }

func tf(vars string, includes string, tasks ...string) string {
	s := "version: '3'\n"
	if includes != "" {
		s += "includes:\n" + includes
	}
	if vars != "" {
		s += "vars:\n" + vars
	}
	s += "tasks:\n"
	for _, t := range tasks {
		s += "  " + t + ":\n    cmds:\n      - echo " + t + " G={{.G}} H={{.H}}\n"
	}
	return s
}

func c09Configs() map[string]map[string]string {
	m := map[string]map[string]string{}
	m["two-siblings-same-var"] = map[string]string{
		"Taskfile.yml": tf("  R: root\n", "  one: ./one.yml\n  two: ./two.yml\n", "show"),
		"one.yml":      tf("  G: one\n  H: h1\n", "", "t", "only1"),
		"two.yml":      tf("  G: two\n", "", "t", "only2"),
	}
	m["three-siblings"] = map[string]string{
		"Taskfile.yml": tf("", "  a: ./a.yml\n  b: ./b.yml\n  c: ./c.yml\n", "show"),
		"a.yml":        tf("  G: a\n", "", "t"),
		"b.yml":        tf("  G: b\n  H: b\n", "", "t"),
		"c.yml":        tf("  G: c\n  H: c\n", "", "t"),
	}
	m["diamond"] = map[string]string{
		"Taskfile.yml": tf("", "  l: ./l.yml\n  r: ./r.yml\n", "show"),
		"l.yml":        tf("  G: l\n", "  shared: ./s.yml\n", "t"),
		"r.yml":        tf("  G: r\n", "  shared: ./s.yml\n", "t"),
		"s.yml":        tf("  H: s\n", "", "leaf"),
	}
	m["diamond-internal-one-side"] = map[string]string{
		"Taskfile.yml": tf("", "  l: ./l.yml\n  r: ./r.yml\n", "show"),
		"l.yml":        tf("  G: l\n", "  shared:\n    taskfile: ./s.yml\n    internal: true\n", "t"),
		"r.yml":        tf("  G: r\n", "  shared:\n    taskfile: ./s.yml\n", "t"),
		"s.yml":        tf("  H: s\n", "", "leaf"),
	}
	m["optional-include-broken-inside"] = map[string]string{
		"Taskfile.yml": tf("", "  opt:\n    taskfile: ./opt.yml\n    optional: true\n  ok: ./ok.yml\n", "show"),
		"opt.yml":      tf("  G: opt\n", "  missing: ./does-not-exist.yml\n", "t"),
		"ok.yml":       tf("  G: ok\n", "", "t"),
	}
	m["case-differing-siblings"] = map[string]string{
		"Taskfile.yml":     tf("", "  up: ./Inc\n  low: ./inc\n", "show"),
		"Inc/Taskfile.yml": tf("  G: upper\n", "", "t"),
		"inc/Taskfile.yml": tf("  G: lower\n  H: lower\n", "", "t"),
	}
	m["diamond-dirs-dynvar"] = map[string]string{
		"Taskfile.yml": tf("", "  l:\n    taskfile: ./l.yml\n    dir: ./dl\n  r:\n    taskfile: ./r.yml\n    dir: ./dr\n", "show"),
		"l.yml":        tf("  G: l\n", "  shared:\n    taskfile: ./s.yml\n    dir: ./sl\n", "t"),
		"r.yml":        tf("  G: r\n", "  shared:\n    taskfile: ./s.yml\n    dir: ./sr\n", "t"),
		"s.yml":        "version: '3'\nvars:\n  W: {sh: pwd}\n  H: s\ntasks:\n  leaf:\n    cmds:\n      - echo leaf W={{.W}}\n",
		"dl/.keep":     "", "dr/.keep": "", "sl/.keep": "", "sr/.keep": "",
	}
	m["same-file-twice"] = map[string]string{
		"Taskfile.yml": tf("", "  n1:\n    taskfile: ./inc.yml\n    vars: {G: first}\n  n2:\n    taskfile: ./inc.yml\n    vars: {G: second}\n    internal: true\n", "show"),
		"inc.yml":      tf("  H: inc\n", "", "t", "u"),
	}
	m["same-file-twice-dirs-nested-include-without-dir"] = map[string]string{
		"Taskfile.yml": tf("", "  n1:\n    taskfile: ./mid.yml\n    dir: ./d1\n  n2:\n    taskfile: ./mid.yml\n    dir: ./d2\n", "show"),
		"mid.yml":      tf("  G: mid\n", "  lib:\n    taskfile: ./lib.yml\n", "t"),
		"lib.yml":      tf("  H: lib\n", "", "leaf"),
		"d1/.keep":     "", "d2/.keep": "",
	}
	// globals that use the per-task special variables, compiled concurrently for the task list
	m["globals-use-task-special-vars/sched-dump"] = map[string]string{
		"Taskfile.yml": "version: '3'\nvars:\n  WHO: 'who-{{.TASK}}'\nenv:\n  EWHO: 'env-{{.TASK}}'\ntasks:\n  a:\n    cmds:\n      - echo a {{.WHO}}\n  b:\n    cmds:\n      - echo b {{.WHO}}\n  c:\n    cmds:\n      - echo c {{.WHO}}\n",
	}
	// dotenv files whose values refer to each other (values are templated in the order the
	// variables were stored): two files, the first one wins for a name both define
	m["dotenv-cross-references"] = map[string]string{
		"Taskfile.yml": "version: '3'\ndotenv: ['.env', '.env2']\ntasks:\n  show:\n    cmds:\n      - echo show A={{.A}} B={{.B}} C={{.C}} D={{.D}}\n",
		".env":         "A={{.B}}-a\nB=b\nC={{.A}}-c\n",
		".env2":        "B=second\nD={{.C}}-d\n",
	}
	// two parents include the same middle file in mapping form with different vars, and the middle
	// file includes a leaf in mapping form: the leaf's tasks exist once per branch, each with its
	// own branch's vars, whatever the order in which the parents are merged
	m["diamond-mapping-vars-over-nested-mapping-include"] = map[string]string{
		"Taskfile.yml": "version: '3'\nincludes:\n  l: ./l.yml\n  r: ./r.yml\n",
		"l.yml":        "version: '3'\nincludes:\n  mid:\n    taskfile: ./mid.yml\n    vars: {G: from-l}\n",
		"r.yml":        "version: '3'\nincludes:\n  mid:\n    taskfile: ./mid.yml\n    vars: {G: from-r}\n",
		"mid.yml":      "version: '3'\nincludes:\n  leaf:\n    taskfile: ./leaf.yml\n",
		"leaf.yml":     "version: '3'\ntasks:\n  leaf:\n    cmds:\n      - echo leaf G={{.G}}\n",
	}
	m["nested-siblings"] = map[string]string{
		"Taskfile.yml": tf("", "  mid: ./mid.yml\n", "show"),
		"mid.yml":      tf("  G: mid\n", "  x: ./x.yml\n  y: ./y.yml\n", "t"),
		"x.yml":        tf("  G: x\n  H: x\n", "", "t"),
		"y.yml":        tf("  G: y\n  H: y\n", "", "t"),
	}
	m["flatten-and-aliases"] = map[string]string{
		"Taskfile.yml": tf("", "  f1:\n    taskfile: ./f1.yml\n    flatten: true\n  ns:\n    taskfile: ./f2.yml\n    aliases: [n, m]\n", "show"),
		"f1.yml":       tf("  G: f1\n", "", "flat1"),
		"f2.yml":       tf("  G: f2\n  H: f2\n", "", "default", "t"),
	}
	return m
}

// c09Check: every load (every Go-map iteration order and every schedule of the reader's and
// the merge's goroutines) must compute the same dump as the default one.
func c09Check(ref *string, mu *sync.Mutex) func(x *vlab.Exec) []vlab.Violation {
	return func(x *vlab.Exec) []vlab.Violation {
		out := generic("C09", x)
		d := x.Aux["dump"]
		if x.Err != nil {
			d = "ERROR: " + x.ErrStr
		}
		mu.Lock()
		defer mu.Unlock()
		if len(x.Res.Points) == 0 || allDefault(x) {
			*ref = d
			return out
		}
		if *ref == "" || d == *ref {
			return out
		}
		// what differs, and which deviations from the default were taken
		kind := diffKind(*ref, d)
		dev := map[string]bool{}
		for _, p := range x.Res.Points {
			if p.Choice != 0 {
				if p.Env {
					dev[p.Label] = true
				} else {
					dev["schedule:"+p.Label] = true
				}
			}
		}
		out = append(out, vlab.V("C09", "load_differs", kind+":"+strings.Join(vlab.SortedSet(dev), "+"),
			fmt.Sprintf("loading the same Taskfiles gave a different result under deviations %v:\n--- default\n%s--- this load\n%s", vlab.SortedSet(dev), *ref, d)))
		return out
	}
}

func allDefault(x *vlab.Exec) bool {
	for _, p := range x.Res.Points {
		if p.Choice != 0 {
			return false
		}
	}
	return true
}

func diffKind(a, b string) string {
	la, lb := strings.Split(a, "\n"), strings.Split(b, "\n")
	if strings.HasPrefix(b, "ERROR") || strings.HasPrefix(a, "ERROR") {
		return "error_vs_ok"
	}
	names := func(ls []string) string {
		var n []string
		for _, l := range ls {
			if strings.HasPrefix(l, "task ") {
				n = append(n, strings.Fields(l)[1])
			}
		}
		return strings.Join(n, ",")
	}
	if names(la) != names(lb) {
		sa, sb := strings.Split(names(la), ","), strings.Split(names(lb), ",")
		sort.Strings(sa)
		sort.Strings(sb)
		if strings.Join(sa, ",") == strings.Join(sb, ",") {
			return "task_order"
		}
		return "task_set"
	}
	if la[0] != lb[0] {
		return "global_vars"
	}
	return "task_content"
}

func c09Units(tier string) []*Unit {
	var us []*Unit
	cfgs := c09Configs()
	var names []string
	for k := range cfgs {
		names = append(names, k)
	}
	sort.Strings(names)
	for _, name := range names {
		sc := &vlab.Scenario{Name: name, Files: cfgs[name], Opts: vlab.Options{SchedSetup: true, DumpOnly: true, SchedDump: strings.HasSuffix(name, "/sched-dump")}}
		ref := new(string)
		bound, shards := 1, 1
		if tier == "thorough" {
			bound, shards = 2, 16
		}
		us = append(us, &Unit{Name: name, Sc: sc, Bound: bound, Prune: false, Env: true, Check: c09Check(ref, &sync.Mutex{}), Weight: len(cfgs[name]), Shards: shards, Filter: minimalDeviationSets, AllVisible: tier == "thorough" && name == "diamond-dirs-dynvar"})
	}
	return us
}

// minimalDeviationSets keeps, among the load_differs violations, only those whose set of
// deviations (tags after the kind, '+'-separated) has no violating proper subset, and drops
// the kind of difference from the signature: the signature then names the responsible
// iteration orders / schedule points only.
func minimalDeviationSets(vs []vlab.Violation) []vlab.Violation {
	type item struct {
		v   vlab.Violation
		set map[string]bool
	}
	var items []item
	var rest []vlab.Violation
	for _, v := range vs {
		if v.Clause != "load_differs" {
			rest = append(rest, v)
			continue
		}
		parts := strings.SplitN(v.Sig, ":", 4) // C09 load_differs kind devs
		set := map[string]bool{}
		if len(parts) == 4 {
			for _, d := range strings.Split(parts[3], "+") {
				// the schedule label is not stable enough to name: keep only "schedule"
				if strings.HasPrefix(d, "schedule:") {
					d = "schedule"
				}
				set[d] = true
			}
		}
		items = append(items, item{v, set})
	}
	subset := func(a, b map[string]bool) bool {
		for k := range a {
			if !b[k] {
				return false
			}
		}
		return true
	}
	seen := map[string]bool{}
	for i, it := range items {
		minimal := true
		for j, o := range items {
			if i != j && len(o.set) < len(it.set) && subset(o.set, it.set) {
				minimal = false
				break
			}
		}
		if !minimal {
			continue
		}
		sig := "C09:load_differs:" + strings.Join(vlab.SortedSet(it.set), "+")
		if seen[sig] {
			continue
		}
		seen[sig] = true
		it.v.Sig = sig
		rest = append(rest, it.v)
	}
	return rest
}
