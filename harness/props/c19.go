package props

import (
	"fmt"
	"os"
	"path/filepath"
	"strings"
	"time"

	"github.com/go-task/task/v3/zverif/vlab"
)

func init() { registry["C19"] = c19Units }

var c19Tokens = []string{"plain", "a b", "a\tb", "a\nb", "'", `"`, `\`, "$HOME", "$(id)", "`id`", "*", "?", "~", ";", "&", "|", "#", "!", "{{.X}}", "{{", "}}", "=", "a=b=c", "", "-x", "é", strings.Repeat("long", 1024), "{a,b}", "--os={l,d}", "-{1..3}", "a{b", "[a-z]", "%s", "^", "-", "--", "<x>", "(a)"}

func tokClass(t string) string {
	switch {
	case strings.Contains(t, "{{") || strings.Contains(t, "}}"):
		return "template_chars"
	case t == "":
		return "empty"
	case len(t) > 1000:
		return "long"
	case strings.ContainsAny(t, " \t\n"):
		return "whitespace"
	case strings.ContainsAny(t, "'\"\\"):
		return "quote_chars"
	case strings.ContainsAny(t, "$`"):
		return "expansion_chars"
	case strings.ContainsAny(t, "{}[]"):
		return "brace_chars"
	case strings.ContainsAny(t, "*?~"):
		return "glob_chars"
	case strings.ContainsAny(t, ";&|#!<>()^%"):
		return "operator_chars"
	case strings.Contains(t, "="):
		return "equals"
	case strings.HasPrefix(t, "-"):
		return "dash"
	}
	return "plain"
}

func vecClass(v []string) string {
	best := "plain"
	rank := map[string]int{"plain": 0, "dash": 1, "equals": 2, "long": 3, "empty": 4, "operator_chars": 5, "brace_chars": 6, "glob_chars": 6, "expansion_chars": 7, "quote_chars": 8, "whitespace": 9, "template_chars": 10}
	for _, t := range v {
		if c := tokClass(t); rank[c] > rank[best] {
			best = c
		}
	}
	return best
}

const c19Taskfile = `version: '3'
tasks:
  fwd:
    cmds:
      - '"$VERIF_ARGVDUMP" "$OUT" {{.CLI_ARGS}}'
  quoted:
    cmds:
      - '"$VERIF_ARGVDUMP" "$OUT" {{shellQuote .X}}'
  q:
    cmds:
      - '"$VERIF_ARGVDUMP" "$OUT" {{q .X}}'
  name:
    cmds:
      - '"$VERIF_ARGVDUMP" "$OUT" {{q .NAME}}'
  twice:
    cmds:
      - task: deferred
        vars: {V: '{{.X}}', O: '{{.OUT}}.1'}
      - task: deferred
        vars: {V: '{{.Y}}', O: '{{.OUT}}.2'}
  deferred:
    cmds:
      - defer: '"$VERIF_ARGVDUMP" "{{.O}}" {{shellQuote .V}}'
      - 'true'
  splitloop:
    cmds:
      - for: {var: X, split: ', '}
        cmd: printf '%s\n' {{shellQuote .ITEM}} >> "$OUT"
  splitcomma:
    cmds:
      - for: {var: X, split: ','}
        cmd: printf '%s\n' {{shellQuote .ITEM}} >> "$OUT"
  afterloop:
    vars: {WORDS: 'p q'}
    cmds:
      - for: {var: WORDS, as: X}
        cmd: 'true'
      - for: [k1, k2]
        cmd: 'true'
      - '"$VERIF_ARGVDUMP" "$OUT" {{shellQuote .X}} {{shellQuote .ITEM}}'
`

func readArgv(path string) ([]string, bool) {
	b, err := os.ReadFile(path)
	if err != nil {
		return nil, false
	}
	if len(b) == 0 {
		return []string{}, true
	}
	parts := strings.Split(string(b), "\x00")
	return parts[:len(parts)-1], true
}

func eqVec(a, b []string) bool {
	if len(a) != len(b) {
		return false
	}
	for i := range a {
		if a[i] != b[i] {
			return false
		}
	}
	return true
}

func short(v []string) string {
	var s []string
	for _, x := range v {
		s = append(s, fmt.Sprintf("%q", firstN(x, 24)))
	}
	return "[" + strings.Join(s, " ") + "]"
}

func c19FwdUnit(first string, idx int, tier string) *Unit {
	name := fmt.Sprintf("forward-cli-args/first-token-%02d", idx)
	return &Unit{Name: name, Weight: 2, Custom: func(u *Unit, dir string, deadline time.Time) *vlab.UnitResult {
		res := &vlab.UnitResult{SigCounts: map[string]int{}, Extra: map[string]any{}}
		os.MkdirAll(dir, 0o755)
		os.WriteFile(filepath.Join(dir, "Taskfile.yml"), []byte(c19Taskfile), 0o644)
		out := filepath.Join(dir, "argv.out")
		var vecs [][]string
		vecs = append(vecs, []string{first})
		for _, t2 := range c19Tokens {
			vecs = append(vecs, []string{first, t2})
		}
		hostile := []string{"a b", "'", `"`, `\`, "$(id)", "*", ";", "", "a\nb"}
		if tier == "thorough" || idx < len(hostile) {
			h1 := first
			for _, t2 := range hostile {
				for _, t3 := range hostile {
					vecs = append(vecs, []string{h1, t2, t3})
				}
			}
		}
		n := 0
		outcomes := map[string]bool{}
		var samples []any
		for _, v := range vecs {
			os.Remove(out)
			args := append([]string{"fwd", "--"}, v...)
			_, se, rc := RunCLI(dir, []string{"OUT=" + out, "VERIF_ARGVDUMP=" + os.Getenv("VERIF_ARGVDUMP")}, "", args...)
			n++
			got, ok := readArgv(out)
			cls := vecClass(v)
			outcomes[fmt.Sprintf("%s/%v", cls, ok && eqVec(got, v))] = true
			if len(samples) < 2 && len(v) == 2 {
				samples = append(samples, map[string]any{"given": v, "received": got})
			}
			if rc != 0 || !ok || !eqVec(got, v) {
				vv := vlab.V("C19", "cli_args_not_verbatim", cls, fmt.Sprintf("task fwd -- %s: the command received %s (status %d, stderr %q)", short(v), short(got), rc, firstN(se, 160)))
				vv.Scenario = name
				vv.Input = map[string]any{"args": args, "taskfile": c19Taskfile}
				res.SigCounts[vv.Sig]++
				if res.SigCounts[vv.Sig] == 1 {
					res.Violations = append(res.Violations, vv)
				}
			}
		}
		res.Extra["samples"] = samples
		res.Stats = vlab.Stats{Scenario: name, Execs: n, States: n, Transitions: n, Outcomes: len(outcomes), Exhaustive: true}
		return res
	}}
}

func c19VarUnit() *Unit {
	name := "variable-values-and-name-split"
	return &Unit{Name: name, Weight: 2, Custom: func(u *Unit, dir string, deadline time.Time) *vlab.UnitResult {
		res := &vlab.UnitResult{SigCounts: map[string]int{}, Extra: map[string]any{}}
		os.MkdirAll(dir, 0o755)
		os.WriteFile(filepath.Join(dir, "Taskfile.yml"), []byte(c19Taskfile), 0o644)
		out := filepath.Join(dir, "argv.out")
		n := 0
		outcomes := map[string]bool{}
		var samples []any
		add := func(v vlab.Violation, args []string) {
			v.Scenario = name
			v.Input = map[string]any{"args": args, "taskfile": c19Taskfile}
			res.SigCounts[v.Sig]++
			if res.SigCounts[v.Sig] == 1 {
				res.Violations = append(res.Violations, v)
			}
		}
		vals := append([]string{}, c19Tokens...)
		for _, a := range []string{"a b", "'", "$(id)", "*", "a\nb", `\`} {
			for _, b := range []string{`"`, ";", "{x}", "=", "--"} {
				vals = append(vals, a+b, b+a+b)
			}
		}
		for _, val := range vals {
			for _, tk := range []string{"quoted", "q"} {
				os.Remove(out)
				args := []string{tk, "X=" + val}
				_, se, rc := RunCLI(dir, []string{"OUT=" + out, "VERIF_ARGVDUMP=" + os.Getenv("VERIF_ARGVDUMP")}, "", args...)
				n++
				got, ok := readArgv(out)
				good := rc == 0 && ok && len(got) == 1 && got[0] == val
				outcomes[fmt.Sprintf("%s/%v", tokClass(val), good)] = true
				if len(samples) < 2 {
					samples = append(samples, map[string]any{"X": val, "received": got})
				}
				if !good {
					add(vlab.V("C19", "quoted_value_not_verbatim", tk+":"+tokClass(val), fmt.Sprintf("task %s X=%q: the command received %s (status %d, stderr %q)", tk, firstN(val, 40), short(got), rc, firstN(se, 160))), args)
				}
			}
		}
		// a deferred command that quotes a variable, the task called twice in one run with different values
		for _, pair := range [][2]string{{"a b", "c'd"}, {"$(id)", "*"}, {"x", ""}} {
			os.Remove(out + ".1")
			os.Remove(out + ".2")
			args := []string{"twice", "X=" + pair[0], "Y=" + pair[1]}
			_, se, rc := RunCLI(dir, []string{"OUT=" + out, "VERIF_ARGVDUMP=" + os.Getenv("VERIF_ARGVDUMP")}, "", args...)
			n++
			g1, ok1 := readArgv(out + ".1")
			g2, ok2 := readArgv(out + ".2")
			if rc != 0 || !ok1 || !ok2 || len(g1) != 1 || len(g2) != 1 || g1[0] != pair[0] || g2[0] != pair[1] {
				add(vlab.V("C19", "quoted_value_not_verbatim", "deferred:second_call", fmt.Sprintf("task twice X=%q Y=%q: the deferred commands received %s and %s (status %d %q)", pair[0], pair[1], short(g1), short(g2), rc, firstN(se, 120))), args)
			}
		}
		// a variable whose name a for loop of the task used as its iterator means the given value
		// again after the loop
		for _, pair := range [][2]string{{"a b", "c'd"}, {"$(id)", "*"}, {"x=y", "--"}} {
			os.Remove(out)
			args := []string{"afterloop", "X=" + pair[0], "ITEM=" + pair[1]}
			_, se, rc := RunCLI(dir, []string{"OUT=" + out, "VERIF_ARGVDUMP=" + os.Getenv("VERIF_ARGVDUMP")}, "", args...)
			n++
			got, ok := readArgv(out)
			if rc != 0 || !ok || len(got) != 2 || got[0] != pair[0] || got[1] != pair[1] {
				add(vlab.V("C19", "quoted_value_not_verbatim", "after_loop_with_same_iterator_name", fmt.Sprintf("task afterloop X=%q ITEM=%q: the command after the loops received %s (status %d %q)", pair[0], pair[1], short(got), rc, firstN(se, 120))), args)
			}
		}
		// a value that is looped over with an explicit separator reaches the command item by item,
		// each item as one identical argument (empty items included)
		for _, c := range []struct{ task, sep, val string }{
			{"splitloop", ", ", "a b, c"}, {"splitloop", ", ", "x,y, z w"}, {"splitloop", ", ", "one"}, {"splitloop", ", ", "a, , b"},
			{"splitcomma", ",", "x,,y z"}, {"splitcomma", ",", ",lead"}, {"splitcomma", ",", "trail,"}, {"splitcomma", ",", "a b,c  d"},
		} {
			os.Remove(out)
			args := []string{c.task, "X=" + c.val}
			_, se, rc := RunCLI(dir, []string{"OUT=" + out, "VERIF_ARGVDUMP=" + os.Getenv("VERIF_ARGVDUMP")}, "", args...)
			n++
			var got []string
			if b, err := os.ReadFile(out); err == nil && len(b) > 0 {
				got = strings.Split(strings.TrimSuffix(string(b), "\n"), "\n")
			}
			want := strings.Split(c.val, c.sep)
			if rc != 0 || !eqVec(got, want) {
				add(vlab.V("C19", "quoted_value_not_verbatim", "loop_items_split_by_separator", fmt.Sprintf("task %s X=%q (split %q): the commands received %s, expected %s (status %d %q)", c.task, c.val, c.sep, short(got), short(want), rc, firstN(se, 120))), args)
			}
		}
		// the same Taskfile with a root-level dotenv entry (the file does not exist): arguments after
		// '--' and NAME=value assignments still arrive
		{
			tf2 := strings.Replace(c19Taskfile, "version: '3'\n", "version: '3'\ndotenv: ['.env-does-not-exist']\n", 1)
			os.WriteFile(filepath.Join(dir, "Taskfile.yml"), []byte(tf2), 0o644)
			for _, vec := range [][]string{{"a b"}, {"x", "y z"}, {"$(id)", "*"}} {
				os.Remove(out)
				args := append([]string{"fwd", "--"}, vec...)
				_, se, rc := RunCLI(dir, []string{"OUT=" + out, "VERIF_ARGVDUMP=" + os.Getenv("VERIF_ARGVDUMP")}, "", args...)
				n++
				got, ok := readArgv(out)
				if rc != 0 || !ok || !eqVec(got, vec) {
					add(vlab.V("C19", "cli_args_not_verbatim", "with_root_dotenv", fmt.Sprintf("root dotenv entry present, task fwd -- %q: the command received %s (status %d %q)", vec, short(got), rc, firstN(se, 120))), args)
				}
			}
			for _, val := range []string{"plain", "a b", "c'd"} {
				os.Remove(out)
				args := []string{"quoted", "X=" + val}
				_, se, rc := RunCLI(dir, []string{"OUT=" + out, "VERIF_ARGVDUMP=" + os.Getenv("VERIF_ARGVDUMP")}, "", args...)
				n++
				got, ok := readArgv(out)
				if rc != 0 || !ok || len(got) != 1 || got[0] != val {
					add(vlab.V("C19", "quoted_value_not_verbatim", "with_root_dotenv", fmt.Sprintf("root dotenv entry present, task quoted X=%q: the command received %s (status %d %q)", val, short(got), rc, firstN(se, 120))), args)
				}
			}
			os.WriteFile(filepath.Join(dir, "Taskfile.yml"), []byte(c19Taskfile), 0o644)
		}
		// a value that comes from the process environment instead of a NAME=value argument
		for _, val := range []string{"plain", "a=b", "-Dkey=va lue", "http://h/p?a=1&b=2", "=", "a b", "$(id)", "tail="} {
			os.Remove(out)
			args := []string{"quoted"}
			_, se, rc := RunCLI(dir, []string{"OUT=" + out, "VERIF_ARGVDUMP=" + os.Getenv("VERIF_ARGVDUMP"), "X=" + val}, "", args...)
			n++
			got, ok := readArgv(out)
			if rc != 0 || !ok || len(got) != 1 || got[0] != val {
				add(vlab.V("C19", "quoted_value_not_verbatim", "from_environment:"+tokClass(val), fmt.Sprintf("X=%q in the environment, task quoted: the command received %s (status %d %q)", val, short(got), rc, firstN(se, 120))), args)
			}
		}
		// NAME=value is split at the first '=' only
		for _, val := range []string{"a=b=c", "=", "==", "a=", "=b", "x y=z", "1=2=3=4"} {
			os.Remove(out)
			args := []string{"name", "NAME=" + val}
			_, se, rc := RunCLI(dir, []string{"OUT=" + out, "VERIF_ARGVDUMP=" + os.Getenv("VERIF_ARGVDUMP")}, "", args...)
			n++
			got, ok := readArgv(out)
			if rc != 0 || !ok || len(got) != 1 || got[0] != val {
				add(vlab.V("C19", "name_value_split", "", fmt.Sprintf("task name NAME=%s: NAME is %s (status %d %q)", val, short(got), rc, firstN(se, 100))), args)
			}
		}
		res.Extra["samples"] = samples
		res.Stats = vlab.Stats{Scenario: name, Execs: n, States: n, Transitions: n, Outcomes: len(outcomes), Exhaustive: true}
		return res
	}}
}

func c19InitUnit() *Unit {
	name := "init-path"
	return &Unit{Name: name, Weight: 1, Custom: func(u *Unit, dir string, deadline time.Time) *vlab.UnitResult {
		res := &vlab.UnitResult{SigCounts: map[string]int{}, Extra: map[string]any{}}
		type tc struct {
			label   string
			args    []string
			prepare map[string]string // files existing before
			dirs    []string
			want    string // path that must be created ("" = none)
			code    int
			keep    string // existing file that must stay untouched
		}
		cases := []tc{
			{label: "no-path", args: []string{"--init"}, want: "Taskfile.yml"},
			{label: "existing-dir", args: []string{"--init", "sub"}, dirs: []string{"sub"}, want: "sub/Taskfile.yml"},
			{label: "new-file-name", args: []string{"--init", "Custom.yml"}, want: "Custom.yml"},
			{label: "ext-only", args: []string{"--init", ".yaml"}, want: "Taskfile.yaml"},
			{label: "sub-ext-only", args: []string{"--init", "sub/.yml"}, dirs: []string{"sub"}, want: "sub/Taskfile.yml"},
			{label: "existing-file", args: []string{"--init", "Custom.yml"}, prepare: map[string]string{"Custom.yml": "mine\n"}, code: 101, keep: "Custom.yml"},
			{label: "dir-with-taskfile", args: []string{"--init", "sub"}, prepare: map[string]string{"sub/Taskfile.yml": "mine\n"}, code: 101, keep: "sub/Taskfile.yml"},
			{label: "cwd-with-taskfile", args: []string{"--init"}, prepare: map[string]string{"Taskfile.yml": "mine\n"}, code: 101, keep: "Taskfile.yml"},
			{label: "ext-only-existing", args: []string{"--init", ".yaml"}, prepare: map[string]string{"Taskfile.yaml": "mine\n"}, code: 101, keep: "Taskfile.yaml"},
			{label: "sub-ext-only-existing", args: []string{"--init", "sub/.yml"}, prepare: map[string]string{"sub/Taskfile.yml": "mine\n"}, code: 101, keep: "sub/Taskfile.yml"},
			// the directory spelled with dots
			{label: "dot", args: []string{"--init", "."}, want: "Taskfile.yml"},
			{label: "dot-slash", args: []string{"--init", "./"}, want: "Taskfile.yml"},
			{label: "sub-dot", args: []string{"--init", "sub/."}, dirs: []string{"sub"}, want: "sub/Taskfile.yml"},
			{label: "dot-existing", args: []string{"--init", "."}, prepare: map[string]string{"Taskfile.yml": "mine\n"}, code: 101, keep: "Taskfile.yml"},
			{label: "dotdot-sub", args: []string{"--init", "sub/../sub"}, dirs: []string{"sub"}, want: "sub/Taskfile.yml"},
			{label: "path-and-dashdash", args: []string{"--init", "A.yml", "--", "B.yml"}, want: "A.yml"},
			{label: "only-after-dashdash", args: []string{"--init", "--", "B.yml"}, want: "Taskfile.yml"},
		}
		n := 0
		var samples []any
		for _, c := range cases {
			os.RemoveAll(dir)
			os.MkdirAll(dir, 0o755)
			for _, d := range c.dirs {
				os.MkdirAll(filepath.Join(dir, d), 0o755)
			}
			for rel, content := range c.prepare {
				os.MkdirAll(filepath.Dir(filepath.Join(dir, rel)), 0o755)
				os.WriteFile(filepath.Join(dir, rel), []byte(content), 0o644)
			}
			before := takeSnapshot(dir)
			so, se, rc := RunCLI(dir, nil, "", c.args...)
			after := takeSnapshot(dir)
			n++
			var created []string
			for _, d := range before.diff(after) {
				created = append(created, d)
			}
			samples = append(samples, map[string]any{"case": c.label, "args": c.args, "changes": created, "status": rc})
			bad := ""
			switch {
			case rc != c.code:
				bad = fmt.Sprintf("status %d, expected %d", rc, c.code)
			case c.want != "" && !(len(created) == 1 && created[0] == "created:"+c.want):
				bad = fmt.Sprintf("expected exactly %s to be created, changes: %v", c.want, created)
			case c.want == "" && len(created) != 0:
				bad = fmt.Sprintf("expected no change, changes: %v", created)
			}
			if bad != "" {
				v := vlab.V("C19", "init_path", c.label, fmt.Sprintf("task %v: %s (stdout %q stderr %q)", c.args, bad, firstN(so, 80), firstN(se, 120)))
				v.Scenario = name
				v.Input = map[string]any{"args": c.args, "existing": c.prepare}
				res.SigCounts[v.Sig]++
				if res.SigCounts[v.Sig] == 1 {
					res.Violations = append(res.Violations, v)
				}
			}
		}
		res.Extra["samples"] = samples[:2]
		res.Stats = vlab.Stats{Scenario: name, Execs: n, States: n, Transitions: n, Outcomes: n, Exhaustive: true}
		return res
	}}
}

func c19Units(tier string) []*Unit {
	var us []*Unit
	for i, t := range c19Tokens {
		us = append(us, c19FwdUnit(t, i, tier))
	}
	us = append(us, c19VarUnit(), c19InitUnit(), c19DynamicAndScriptUnit())
	return us
}

// (1) a value that comes from a dynamic variable: the command's output minus ONE trailing line
// break is the value, and {{shellQuote}} passes it on as one identical argument — also when the
// output ends in several line breaks; (2) forwarded arguments that look like options, given to a
// command that is an executable script without a '#!' line: either the script cannot be started
// at all (the kernel's "exec format error") or it receives exactly the given arguments — a run
// that succeeds without delivering them is a violation.
func c19DynamicAndScriptUnit() *Unit {
	name := "dynamic-variable-values-and-scripts-without-shebang"
	tf := `version: '3'
tasks:
  dyn:
    vars:
      D: {sh: 'printf "%s" "$RAW"'}
    cmds:
      - '"$VERIF_ARGVDUMP" "$OUT" {{shellQuote .D}}'
  script:
    cmds:
      - ./dump.sh {{.CLI_ARGS}}
  direct:
    cmds:
      - '"$VERIF_ARGVDUMP" "$OUT" {{q .X}}'
  viaref:
    vars:
      Y: {ref: .X}
    cmds:
      - '"$VERIF_ARGVDUMP" "$OUT" {{q .Y}}'
  viash:
    vars:
      Z: {sh: 'printf "%s" "$X"'}
    cmds:
      - '"$VERIF_ARGVDUMP" "$OUT" {{q .Z}}'
  viashref:
    vars:
      Z: {sh: 'printf "%s" "$X"'}
      Y: {ref: .Z}
    cmds:
      - '"$VERIF_ARGVDUMP" "$OUT" {{q .Y}}'
  viacall:
    cmds:
      - task: direct
        vars: {X: {ref: .X}}
`
	return &Unit{Name: name, Weight: 1, Custom: func(u *Unit, dir string, deadline time.Time) *vlab.UnitResult {
		res := &vlab.UnitResult{SigCounts: map[string]int{}, Extra: map[string]any{}}
		os.RemoveAll(dir)
		os.MkdirAll(dir, 0o755)
		os.WriteFile(filepath.Join(dir, "Taskfile.yml"), []byte(tf), 0o644)
		os.WriteFile(filepath.Join(dir, "dump.sh"), []byte("printf '%s\\n' \"$#\" \"$@\" > \"$OUT\"\n"), 0o755)
		out := filepath.Join(dir, "argv.out")
		n := 0
		var samples []any
		add := func(v vlab.Violation, args []string) {
			v.Scenario = name
			v.Input = map[string]any{"args": args, "taskfile": tf}
			res.SigCounts[v.Sig]++
			if res.SigCounts[v.Sig] == 1 {
				res.Violations = append(res.Violations, v)
			}
		}
		for _, c := range [][2]string{{"x", "x"}, {"x\n", "x"}, {"x\n\n", "x\n"}, {"x\n\n\n", "x\n\n"}, {"a b\n\nc\n", "a b\n\nc"}, {"\n\n", "\n"}, {"x \n", "x "}} {
			os.Remove(out)
			args := []string{"dyn"}
			_, se, rc := RunCLI(dir, []string{"OUT=" + out, "VERIF_ARGVDUMP=" + os.Getenv("VERIF_ARGVDUMP"), "RAW=" + c[0]}, "", args...)
			n++
			got, ok := readArgv(out)
			if len(samples) < 2 {
				samples = append(samples, map[string]any{"output": c[0], "received": got})
			}
			if rc != 0 || !ok || len(got) != 1 || got[0] != c[1] {
				add(vlab.V("C19", "quoted_value_not_verbatim", "from_dynamic_variable", fmt.Sprintf("dynamic variable whose command prints %q: the command received %s, expected [%q] (status %d %q)", c[0], short(got), c[1], rc, firstN(se, 120))), args)
			}
		}
		// values with template characters that reach a variable from the process environment or from a
		// command's output (never through a NAME=value argument), directly, through a reference, and
		// through a reference passed on to a called task
		for _, val := range []string{"{{.G}}", "a{{.NOPE}}b", "{{", `}} {{"`, "{{/* c */}}x", "plain $(id) *"} {
			for _, tk := range []string{"direct", "viaref", "viash", "viashref", "viacall"} {
				os.Remove(out)
				args := []string{tk}
				_, se, rc := RunCLI(dir, []string{"OUT=" + out, "VERIF_ARGVDUMP=" + os.Getenv("VERIF_ARGVDUMP"), "X=" + val, "G=gee"}, "", args...)
				n++
				got, ok := readArgv(out)
				if rc != 0 || !ok || len(got) != 1 || got[0] != val {
					add(vlab.V("C19", "quoted_value_not_verbatim", "template_chars_from_environment:"+tk, fmt.Sprintf("X=%q in the environment, task %s: the command received %s (status %d %q)", val, tk, short(got), rc, firstN(se, 120))), args)
				}
			}
		}
		for _, vec := range [][]string{{"plain"}, {"-n", "x"}, {"-x"}, {"--", "a"}, {"+e", "b"}, {"-e", "-u", "c d"}, {"--verbose"}} {
			os.Remove(out)
			args := append([]string{"script", "--"}, vec...)
			_, se, rc := RunCLI(dir, []string{"OUT=" + out}, "", args...)
			n++
			var got []string
			b, err := os.ReadFile(out)
			if err == nil && len(b) > 0 {
				got = strings.Split(strings.TrimSuffix(string(b), "\n"), "\n")
			}
			want := append([]string{fmt.Sprint(len(vec))}, vec...)
			switch {
			case rc != 0 && err != nil:
				// the script could not be started: nothing was delivered, nothing was delivered wrongly
			case !eqVec(got, want):
				add(vlab.V("C19", "cli_args_not_verbatim", "script_without_shebang:"+vecClass(vec), fmt.Sprintf("task script -- %q: the script received %s, expected %s (status %d %q)", vec, short(got), short(want), rc, firstN(se, 120))), args)
			}
		}
		res.Extra["samples"] = samples
		res.Stats = vlab.Stats{Scenario: name, Execs: n, States: n, Transitions: n, Outcomes: 2, Exhaustive: true}
		return res
	}}
}
