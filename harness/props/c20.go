package props

import (
	"crypto/sha256"
	"fmt"
	"net"
	"net/http"
	"os"
	"path/filepath"
	"sort"
	"strings"
	"sync"
	"time"

	"github.com/go-task/task/v3/zverif/vlab"
)

func init() { registry["C20"] = c20Units }

// Engine D: breadth-first search over (server content, server mode, cache files, approved
// checksum). Transitions are real CLI invocations against a loopback HTTP server owned by the
// harness, server events, and "time passes beyond --expiry" (rewriting the cache timestamp).

type c20Server struct {
	mu      sync.Mutex
	ln      net.Listener
	addr    string
	content string // "v1" | "v2"
	mode    string // up | refusing | http500 | silent
	srv     *http.Server
	reqs    int
	slowOn  bool // requests carrying slow=1 hang until the client gives up
}

// v1 is longer than v2 (an in-place overwrite without truncation leaves a tail)
func c20Content(v string) string {
	if strings.HasPrefix(v, "raw:") {
		return strings.TrimPrefix(v, "raw:")
	}
	if v == "v1" {
		return "version: '3'\ntasks:\n  show:\n    cmds:\n      - echo REMOTE-v1\n      - echo EXTRA-v1\n  other:\n    cmds:\n      - echo OTHER-v1\n"
	}
	return "version: '3'\ntasks:\n  show:\n    cmds:\n      - echo REMOTE-" + v + "\n"
}

func (s *c20Server) start() error {
	ln, err := net.Listen("tcp", "127.0.0.1:0")
	if err != nil {
		return err
	}
	s.addr = ln.Addr().String()
	s.serve(ln)
	return nil
}

func (s *c20Server) serve(ln net.Listener) {
	s.ln = ln
	mux := http.NewServeMux()
	mux.HandleFunc("/inc.yml", func(w http.ResponseWriter, r *http.Request) {
		s.mu.Lock()
		mode, content := s.mode, s.content
		s.reqs++
		s.mu.Unlock()
		if ref := r.URL.Query().Get("ref"); ref != "" {
			content = ref // /inc.yml?ref=v1 and ?ref=v2 are two different remote files
		}
		s.mu.Lock()
		slow := s.slowOn && r.URL.Query().Get("slow") == "1"
		s.mu.Unlock()
		if slow {
			mode = "silent"
		}
		switch mode {
		case "http500":
			http.Error(w, "boom", 500)
		case "silent":
			select {
			case <-r.Context().Done():
			case <-time.After(20 * time.Second):
			}
		case "stall-get":
			// the server answers a HEAD request at once and then never answers the GET
			if r.Method != http.MethodHead {
				select {
				case <-r.Context().Done():
				case <-time.After(20 * time.Second):
				}
				return
			}
			w.Header().Set("Content-Type", "text/yaml")
			w.Header().Set("Content-Length", fmt.Sprint(len(c20Content(content))))
		default:
			w.Write([]byte(c20Content(content)))
		}
	})
	// /a.yml is a remote Taskfile that itself includes the remote /inc.yml
	mux.HandleFunc("/a.yml", func(w http.ResponseWriter, r *http.Request) {
		s.mu.Lock()
		mode := s.mode
		s.reqs++
		s.mu.Unlock()
		switch mode {
		case "http500":
			http.Error(w, "boom", 500)
		case "silent":
			select {
			case <-r.Context().Done():
			case <-time.After(20 * time.Second):
			}
		case "stall-get":
			if r.Method != http.MethodHead {
				select {
				case <-r.Context().Done():
				case <-time.After(20 * time.Second):
				}
				return
			}
			w.Header().Set("Content-Type", "text/yaml")
		default:
			w.Write([]byte("version: '3'\nincludes:\n  b: http://" + s.addr + "/inc.yml\ntasks:\n  showa:\n    cmds:\n      - echo OUTER\n"))
		}
	})
	// /proj/ is a directory-style URL: the client has to probe the default Taskfile names below it.
	// The directory itself always answers (404); in mode "silent" the probe of /proj/Taskfile.yml
	// hangs until the client gives up.
	mux.HandleFunc("/proj/", func(w http.ResponseWriter, r *http.Request) {
		s.mu.Lock()
		mode, content := s.mode, s.content
		s.reqs++
		s.mu.Unlock()
		if r.URL.Path != "/proj/Taskfile.yml" {
			http.NotFound(w, r)
			return
		}
		if mode == "silent" {
			select {
			case <-r.Context().Done():
			case <-time.After(20 * time.Second):
			}
			return
		}
		w.Header().Set("Content-Type", "text/yaml")
		if r.Method != http.MethodHead {
			w.Write([]byte(c20Content(content)))
		}
	})
	s.srv = &http.Server{Handler: mux}
	go s.srv.Serve(ln)
}

func (s *c20Server) set(content, mode string) {
	s.mu.Lock()
	wasRefusing := s.mode == "refusing"
	s.content, s.mode = content, mode
	s.mu.Unlock()
	if mode == "refusing" && !wasRefusing {
		s.srv.Close()
		s.ln = nil
	}
	if mode != "refusing" && wasRefusing {
		for i := 0; i < 200; i++ {
			ln, err := net.Listen("tcp", s.addr)
			if err == nil {
				s.serve(ln)
				return
			}
			time.Sleep(10 * time.Millisecond)
		}
		panic("c20: cannot re-listen on " + s.addr)
	}
}

type c20State struct {
	cache    snapshot // files under .task/remote
	content  string
	mode     string
	approved string // version last approved ("" none)
	hist     []string
}

func sha(s string) string { return fmt.Sprintf("%x", sha256.Sum256([]byte(s))) }

// cacheInfo: which version the cache holds and whether its timestamp is within one hour
func cacheInfo(dir string) (ver string, fresh bool, exists bool) {
	files, _ := filepath.Glob(filepath.Join(dir, ".task", "remote", "*.yaml"))
	if len(files) == 0 {
		return "", false, false
	}
	b, _ := os.ReadFile(files[0])
	switch string(b) {
	case c20Content("v1"):
		ver = "v1"
	case c20Content("v2"):
		ver = "v2"
	default:
		ver = "corrupt:" + firstN(string(b), 40)
	}
	ts, _ := filepath.Glob(filepath.Join(dir, ".task", "remote", "*.timestamp"))
	if len(ts) > 0 {
		tb, _ := os.ReadFile(ts[0])
		if t, err := time.Parse(time.RFC3339, string(tb)); err == nil {
			fresh = time.Since(t) < 30*time.Minute
		}
	}
	return ver, fresh, true
}

func cacheInfoOf(s snapshot) (string, bool, bool) {
	for n := range s {
		if strings.HasSuffix(n, ".yaml") {
			return "", false, true
		}
	}
	return "", false, false
}

func (st *c20State) key(dir string) string {
	ver, fresh, ex := cacheInfo(dir)
	ck, _ := filepath.Glob(filepath.Join(dir, ".task", "remote", "*.checksum"))
	cks := "none"
	if len(ck) > 0 {
		b, _ := os.ReadFile(ck[0])
		switch string(b) {
		case sha(c20Content("v1")):
			cks = "v1"
		case sha(c20Content("v2")):
			cks = "v2"
		default:
			cks = "other"
		}
	}
	return fmt.Sprintf("cache=%v/%s/fresh=%v/cksum=%s server=%s/%s approved=%s", ex, ver, fresh, cks, st.content, st.mode, st.approved)
}

type c20Inv struct {
	name     string
	flags    []string
	yes      bool
	offline  bool
	download bool
	insecure bool
	dry      bool // --dry / --status: nothing runs, and nothing may be approved on the way
}

func c20Invocations(tier string) []c20Inv {
	base := []c20Inv{
		{name: "run", insecure: true},
		{name: "run-yes", yes: true, insecure: true},
		{name: "run-offline", offline: true, insecure: true},
		{name: "run-yes-offline", yes: true, offline: true, insecure: true},
		{name: "run-download", download: true, insecure: true},
		{name: "run-yes-download", yes: true, download: true, insecure: true},
		{name: "run-expiry1h", flags: []string{"--expiry", "1h"}, insecure: true},
		{name: "run-yes-expiry1h", flags: []string{"--expiry", "1h"}, yes: true, insecure: true},
		{name: "run-no-insecure-flag", yes: true},
		{name: "dry", flags: []string{"--dry"}, insecure: true, dry: true},
		{name: "status", flags: []string{"--status"}, insecure: true, dry: true},
	}
	if tier == "thorough" {
		base = append(base,
			c20Inv{name: "run-download-expiry1h", flags: []string{"--expiry", "1h"}, download: true, insecure: true},
			c20Inv{name: "run-yes-download-expiry1h", flags: []string{"--expiry", "1h"}, yes: true, download: true, insecure: true},
			c20Inv{name: "run-offline-expiry1h", flags: []string{"--expiry", "1h"}, offline: true, insecure: true})
	}
	return base
}

func c20Unit(tier string, optional bool) *Unit {
	name := "remote-cache-server-bfs"
	if optional {
		// the same space for an include marked optional: a declined download still ends the run
		name = "optional-remote-include-bfs"
	}
	return &Unit{Name: name, Weight: 9, Custom: func(u *Unit, dir string, deadline time.Time) *vlab.UnitResult {
		res := &vlab.UnitResult{SigCounts: map[string]int{}, Extra: map[string]any{}}
		srv := &c20Server{content: "v1", mode: "up"}
		if err := srv.start(); err != nil {
			res.HarnessErr = err.Error()
			return res
		}
		os.MkdirAll(dir, 0o755)
		url := "http://" + srv.addr + "/inc.yml"
		rootTF := "version: '3'\nincludes:\n  rem: " + url + "\ntasks:\n  local:\n    cmds: ['true']\n"
		if optional {
			rootTF = "version: '3'\nincludes:\n  rem:\n    taskfile: " + url + "\n    optional: true\ntasks:\n  local:\n    cmds: ['true']\n"
		}
		os.WriteFile(filepath.Join(dir, "Taskfile.yml"), []byte(rootTF), 0o644)
		modes := []string{"up", "refusing", "http500"}
		if tier == "thorough" {
			modes = append(modes, "silent")
		}
		invs := c20Invocations(tier)
		remoteDir := filepath.Join(dir, ".task", "remote")
		add := func(v vlab.Violation, hist []string) {
			v.Scenario = name
			v.Input = map[string]any{"history": hist, "root_taskfile": rootTF}
			v.Trace = hist
			res.SigCounts[v.Sig]++
			if res.SigCounts[v.Sig] == 1 {
				res.Violations = append(res.Violations, v)
			}
		}
		restore := func(st *c20State) {
			os.RemoveAll(filepath.Join(dir, ".task"))
			if len(st.cache) > 0 {
				os.MkdirAll(remoteDir, 0o755)
				for n, f := range st.cache {
					if !f.Dir {
						os.WriteFile(filepath.Join(remoteDir, n), f.Content, 0o644)
					}
				}
			}
			srv.set(st.content, st.mode)
		}
		init := &c20State{content: "v1", mode: "up"}
		restore(init)
		seen := map[string]bool{init.key(dir): true}
		frontier := []*c20State{init}
		trans := 0
		var samples []any
		exhaustive := true
		depth := 0
		maxDepth := 5
		if tier == "thorough" {
			maxDepth = 9
		}
		if optional {
			maxDepth -= 2
		}
		for ; depth < maxDepth && len(frontier) > 0; depth++ {
			var next []*c20State
			for _, st := range frontier {
				type ev struct {
					name string
					f    func(ns *c20State)
				}
				var evs []ev
				for _, c := range []string{"v1", "v2"} {
					if c != st.content {
						c := c
						evs = append(evs, ev{"server-content-" + c, func(ns *c20State) { ns.content = c; srv.set(ns.content, ns.mode) }})
					}
				}
				for _, m := range modes {
					if m != st.mode {
						m := m
						evs = append(evs, ev{"server-" + m, func(ns *c20State) { ns.mode = m; srv.set(ns.content, ns.mode) }})
					}
				}
				evs = append(evs, ev{"cache-expires", func(ns *c20State) {
					ts, _ := filepath.Glob(filepath.Join(remoteDir, "*.timestamp"))
					for _, t := range ts {
						os.WriteFile(t, []byte(time.Now().UTC().Add(-3*time.Hour).Format(time.RFC3339)), 0o644)
					}
				}})
				if _, _, ex := cacheInfoOf(st.cache); ex {
					evs = append(evs, ev{"killed-before-cached-file-was-written", func(ns *c20State) {
						ys, _ := filepath.Glob(filepath.Join(remoteDir, "*.yaml"))
						for _, y := range ys {
							os.Remove(y)
						}
					}})
				}
				for _, inv := range invs {
					inv := inv
					evs = append(evs, ev{inv.name, func(ns *c20State) {
						args := []string{"--timeout", "5s"}
						if inv.insecure {
							args = append(args, "--insecure")
						}
						if inv.yes {
							args = append(args, "--yes")
						}
						if inv.offline {
							args = append(args, "--offline")
						}
						if inv.download {
							args = append(args, "--download")
						}
						args = append(args, inv.flags...)
						args = append(args, "rem:show")
						cver, cfresh, cex := cacheInfo(dir)
						srv.mu.Lock()
						reqs0 := srv.reqs
						srv.mu.Unlock()
						so, se, rc := RunCLI(dir, []string{"TASK_X_REMOTE_TASKFILES=1"}, "", args...)
						ran := ""
						has1 := strings.Contains(so, "-v1")
						has2 := strings.Contains(so, "-v2")
						switch {
						case has1 && has2:
							ran = "mixed-v1-v2"
						case has1:
							ran = "v1"
						case has2:
							ran = "v2"
						}
						hist := append(append([]string{}, ns.hist...), inv.name)
						ctx := fmt.Sprintf("%s [state before: cache=%v/%s/fresh=%v server=%s/%s approved=%q] -> status %d ran=%q stderr=%q", inv.name, cex, cver, cfresh, ns.content, ns.mode, ns.approved, rc, ran, firstN(se, 140))
						tag := inv.name + ":server=" + ns.mode
						if c := c16Crash(se, rc); c != "" {
							add(vlab.V("C20", c, inv.name, ctx), hist)
							return
						}
						if inv.dry {
							// read-only modes load the remote Taskfile like any other invocation: unapproved
							// content ends them with 104, and they approve nothing (the next plain run tells)
							if ns.mode == "up" && ns.content != ns.approved && rc != 104 {
								add(vlab.V("C20", "declined_download_not_104", fmt.Sprintf("%s:got%d", inv.name, rc), "new or changed remote content was downloaded without approval; the invocation must end with 104: "+ctx), hist)
							}
							if ran != "" {
								add(vlab.V("C20", "dry_run_executed_commands", inv.name, ctx), hist)
							}
							return
						}
						if !inv.insecure {
							srv.mu.Lock()
							nreq := srv.reqs - reqs0
							srv.mu.Unlock()
							// an optional include swallows the refusal (the include is left out and the
							// missing task is reported); refused still means: no request, nothing runs
							if (rc != 105 && !optional) || rc == 0 || ran != "" || nreq != 0 {
								add(vlab.V("C20", "plain_http_not_refused", fmt.Sprintf("got%d", rc), fmt.Sprintf("plain http without --insecure must be refused (status 105, no request, nothing runs; %d requests were made): %s", nreq, ctx)), hist)
							}
							return
						}
						// trust: whatever ran must be the approved content, or be approved by this very run
						if ran != "" {
							okTrust := ran == ns.approved || (inv.yes && !inv.offline && ns.mode == "up" && ran == ns.content)
							if !okTrust {
								add(vlab.V("C20", "unapproved_content_ran", tag, "content whose checksum was not approved was executed: "+ctx), hist)
							}
							if rc != 0 {
								add(vlab.V("C20", "ran_but_failed", tag, ctx), hist)
							}
						}
						if rc == 0 && ran == "" {
							add(vlab.V("C20", "succeeded_without_running", tag, ctx), hist)
						}
						if rc == 104 && !(ns.mode == "up" && !inv.yes && !inv.offline && ns.content != ns.approved) {
							add(vlab.V("C20", "spurious_not_trusted", tag, "104 although nothing new needed approval: "+ctx), hist)
						}
						// a download of content that is not the approved one, with nobody to approve it,
						// ends the invocation with 104 (without --expiry every online run downloads)
						if ns.mode == "up" && !inv.yes && !inv.offline && ns.content != ns.approved && len(inv.flags) == 0 && rc != 104 {
							add(vlab.V("C20", "declined_download_not_104", fmt.Sprintf("%s:got%d", inv.name, rc), "new or changed remote content was downloaded without approval; the invocation must end with 104: "+ctx), hist)
						}
						// availability: an approved cached copy keeps the task runnable offline / when the server fails
						haveApproved := cex && cver == ns.approved && ns.approved != ""
						if haveApproved && (inv.offline || ns.mode != "up") && !(inv.offline && inv.download) {
							if rc != 0 || ran != cver {
								add(vlab.V("C20", "cache_not_used", fmt.Sprintf("%s:got%d", tag, rc), "an approved cached copy exists but the task did not run from it: "+ctx), hist)
							}
						}
						// approved content on a reachable server runs
						if ns.mode == "up" && !inv.offline && (ns.content == ns.approved || inv.yes) && rc != 0 {
							add(vlab.V("C20", "approved_content_did_not_run", fmt.Sprintf("%s:got%d", tag, rc), ctx), hist)
						}
						// a successful online run that had no cached file to read must have downloaded
						// it: afterwards the cache holds that copy
						if rc == 0 && !cex && !inv.offline && (ran == "v1" || ran == "v2") {
							if nver, _, nex := cacheInfo(dir); !nex || nver != ran {
								add(vlab.V("C20", "download_not_cached", tag, fmt.Sprintf("downloaded and ran %s but the cache holds exists=%v %q afterwards: %s", ran, nex, nver, ctx)), hist)
							}
						}
						// no approval possible -> nothing new may be recorded as approved
						if ran != "" && inv.yes && !inv.offline && ns.mode == "up" && ran == ns.content {
							ns.approved = ran
						}
						if len(samples) < 3 && len(hist) >= 3 {
							samples = append(samples, map[string]any{"history": hist, "last": ctx})
						}
					}})
				}
				for _, e := range evs {
					if !deadline.IsZero() && time.Now().After(deadline) {
						exhaustive = false
						goto done
					}
					restore(st)
					ns := &c20State{content: st.content, mode: st.mode, approved: st.approved, hist: st.hist}
					e.f(ns)
					trans++
					if !strings.HasPrefix(e.name, "run") {
						ns.hist = append(append([]string{}, st.hist...), e.name)
					} else {
						ns.hist = append(append([]string{}, st.hist...), e.name)
					}
					k := ns.key(dir)
					if seen[k] {
						continue
					}
					seen[k] = true
					ns.cache = takeSnapshot(remoteDir)
					next = append(next, ns)
				}
			}
			frontier = next
		}
	done:
		srv.set("v1", "refusing")
		var keys []string
		for k := range seen {
			keys = append(keys, k)
		}
		sort.Strings(keys)
		if len(samples) == 0 {
			samples = append(samples, map[string]any{"state": keys[0]})
		}
		res.Extra["samples"] = samples
		res.Extra["fixpoint_reached"] = len(frontier) == 0
		res.Extra["depth"] = depth
		res.Stats = vlab.Stats{Scenario: name, Execs: trans, States: len(seen), Transitions: trans, Outcomes: len(seen), Exhaustive: exhaustive, Bound: maxDepth, Completed: depth}
		return res
	}}
}

// two remote includes whose URLs differ only in the query string are two remote files: each
// keeps its own approved cached copy, whatever is downloaded in between
func c20TwoURLsUnit() *Unit {
	name := "two-urls-differing-in-query"
	return &Unit{Name: name, Weight: 2, Custom: func(u *Unit, dir string, deadline time.Time) *vlab.UnitResult {
		res := &vlab.UnitResult{SigCounts: map[string]int{}, Extra: map[string]any{}}
		srv := &c20Server{content: "v1", mode: "up"}
		if err := srv.start(); err != nil {
			res.HarnessErr = err.Error()
			return res
		}
		defer srv.set("v1", "refusing")
		n := 0
		var samples []any
		base := "http://" + srv.addr + "/inc.yml"
		for _, order := range [][2]string{{"v1", "v2"}, {"v2", "v1"}} {
			rootTF := "version: '3'\nincludes:\n  a: " + base + "?ref=" + order[0] + "\n  b: " + base + "?ref=" + order[1] + "\ntasks:\n  local:\n    cmds: ['true']\n"
			for _, later := range [][]string{{"--offline"}, {"--expiry", "1h"}, {"server-refusing"}, {"server-http500"}} {
				os.RemoveAll(dir)
				os.MkdirAll(dir, 0o755)
				os.WriteFile(filepath.Join(dir, "Taskfile.yml"), []byte(rootTF), 0o644)
				srv.set("v1", "up")
				env := []string{"TASK_X_REMOTE_TASKFILES=1"}
				first := []string{"--timeout", "20s", "--insecure", "--yes"}
				if later[0] == "--expiry" {
					first = append(first, later...)
				}
				so1a, _, rc1a := RunCLI(dir, env, "", append(append([]string{}, first...), "a:show")...)
				so1b, _, rc1b := RunCLI(dir, env, "", append(append([]string{}, first...), "b:show")...)
				n += 2
				args := []string{"--timeout", "5s", "--insecure"}
				switch later[0] {
				case "server-refusing":
					srv.set("v1", "refusing")
				case "server-http500":
					srv.set("v1", "http500")
				default:
					args = append(args, later...)
				}
				hist := []string{"run-yes a:show", "run-yes b:show", strings.Join(later, " ")}
				for i, ns := range []string{"a", "b"} {
					so, se, rc := RunCLI(dir, env, "", append(append([]string{}, args...), ns+":show")...)
					n++
					want := "REMOTE-" + order[i]
					if len(samples) < 3 {
						samples = append(samples, map[string]any{"history": hist, "request": ns + ":show", "status": rc, "stdout": so})
					}
					if rc1a != 0 || rc1b != 0 || !strings.Contains(so1a, "REMOTE-"+order[0]) || !strings.Contains(so1b, "REMOTE-"+order[1]) {
						continue // the downloading runs are judged by the main unit
					}
					if rc != 0 || !strings.Contains(so, want) {
						clause := "cache_not_used"
						if rc == 0 {
							clause = "unapproved_content_ran"
						}
						v := vlab.V("C20", clause, "two_urls:"+later[0], fmt.Sprintf("%s:show after both URLs were downloaded and approved, then %v: status %d, stdout %q, stderr %q; expected the cached copy of %s?ref=%s (%s)", ns, later, rc, so, firstN(se, 120), base, order[i], want))
						v.Scenario = name
						v.Input = map[string]any{"history": hist, "root_taskfile": rootTF}
						v.Trace = hist
						res.SigCounts[v.Sig]++
						if res.SigCounts[v.Sig] == 1 {
							res.Violations = append(res.Violations, v)
						}
					}
				}
			}
		}
		res.Extra["samples"] = samples
		res.Stats = vlab.Stats{Scenario: name, Execs: n, States: n, Transitions: n, Outcomes: 2, Exhaustive: true}
		return res
	}}
}

// a remote Taskfile that includes another remote Taskfile: once both are downloaded and
// approved, the inner one stays runnable from the cache under every kind of network failure,
// including a server that answers nothing until --timeout has passed
func c20NestedUnit() *Unit {
	name := "nested-remote-include-server-failures"
	return &Unit{Name: name, Weight: 3, Custom: func(u *Unit, dir string, deadline time.Time) *vlab.UnitResult {
		res := &vlab.UnitResult{SigCounts: map[string]int{}, Extra: map[string]any{}}
		srv := &c20Server{content: "v1", mode: "up"}
		if err := srv.start(); err != nil {
			res.HarnessErr = err.Error()
			return res
		}
		defer srv.set("v1", "refusing")
		n := 0
		var samples []any
		rootTF := "version: '3'\nincludes:\n  a: http://" + srv.addr + "/a.yml\ntasks:\n  local:\n    cmds: ['true']\n"
		env := []string{"TASK_X_REMOTE_TASKFILES=1"}
		for _, mode := range []string{"silent", "stall-get", "refusing", "http500"} {
			for _, extra := range [][]string{nil, {"--download"}, {"--offline"}} {
				os.RemoveAll(dir)
				os.MkdirAll(dir, 0o755)
				os.WriteFile(filepath.Join(dir, "Taskfile.yml"), []byte(rootTF), 0o644)
				srv.set("v1", "up")
				so0, se0, rc0 := RunCLI(dir, env, "", "--timeout", "20s", "--insecure", "--yes", "a:b:show")
				n++
				hist := []string{"run-yes a:b:show", "server-" + mode, "run --timeout 1s " + strings.Join(extra, " ")}
				add := func(v vlab.Violation) {
					v.Scenario = name
					v.Input = map[string]any{"history": hist, "root_taskfile": rootTF}
					v.Trace = hist
					res.SigCounts[v.Sig]++
					if res.SigCounts[v.Sig] == 1 {
						res.Violations = append(res.Violations, v)
					}
				}
				if rc0 != 0 || !strings.Contains(so0, "REMOTE-v1") {
					add(vlab.V("C20", "approved_content_did_not_run", "nested:first_download", fmt.Sprintf("status %d stdout %q stderr %q", rc0, so0, firstN(se0, 160))))
					continue
				}
				srv.set("v1", mode)
				args := append([]string{"--timeout", "1s", "--insecure"}, extra...)
				so, se, rc := RunCLI(dir, env, "", append(args, "a:b:show")...)
				n++
				if len(samples) < 3 {
					samples = append(samples, map[string]any{"history": hist, "status": rc, "stdout": so})
				}
				if rc != 0 || !strings.Contains(so, "REMOTE-v1") {
					add(vlab.V("C20", "cache_not_used", fmt.Sprintf("nested:server=%s:%s:got%d", mode, strings.Join(extra, ""), rc), fmt.Sprintf("both remote Taskfiles are cached and approved, the server is %s: status %d stdout %q stderr %q", mode, rc, so, firstN(se, 200))))
				}
			}
		}
		res.Extra["samples"] = samples
		res.Stats = vlab.Stats{Scenario: name, Execs: n, States: n, Transitions: n, Outcomes: 2, Exhaustive: true}
		return res
	}}
}

// plain http is refused without --insecure however the scheme is spelled, for an include and
// for a root Taskfile given with --taskfile: no request reaches the server, nothing runs
func c20SchemeUnit() *Unit {
	name := "plain-http-scheme-spellings"
	return &Unit{Name: name, Weight: 1, Custom: func(u *Unit, dir string, deadline time.Time) *vlab.UnitResult {
		res := &vlab.UnitResult{SigCounts: map[string]int{}, Extra: map[string]any{}}
		srv := &c20Server{content: "v1", mode: "up"}
		if err := srv.start(); err != nil {
			res.HarnessErr = err.Error()
			return res
		}
		defer srv.set("v1", "refusing")
		n := 0
		var samples []any
		env := []string{"TASK_X_REMOTE_TASKFILES=1"}
		for _, scheme := range []string{"http", "HTTP", "Http", "hTTp"} {
			for _, where := range []string{"include", "root"} {
				url := scheme + "://" + srv.addr + "/inc.yml"
				os.RemoveAll(dir)
				os.MkdirAll(dir, 0o755)
				args := []string{"--timeout", "5s", "--yes"}
				req := "rem:show"
				if where == "include" {
					os.WriteFile(filepath.Join(dir, "Taskfile.yml"), []byte("version: '3'\nincludes:\n  rem: "+url+"\ntasks:\n  local:\n    cmds: ['true']\n"), 0o644)
				} else {
					args = append(args, "--taskfile", url)
					req = "show"
				}
				srv.mu.Lock()
				r0 := srv.reqs
				srv.mu.Unlock()
				so, se, rc := RunCLI(dir, env, "", append(args, req)...)
				n++
				srv.mu.Lock()
				nreq := srv.reqs - r0
				srv.mu.Unlock()
				if len(samples) < 3 {
					samples = append(samples, map[string]any{"scheme": scheme, "where": where, "status": rc, "requests": nreq})
				}
				if rc == 0 || nreq != 0 || strings.Contains(so, "REMOTE-") {
					v := vlab.V("C20", "plain_http_not_refused", fmt.Sprintf("scheme=%s:%s:got%d", scheme, where, rc), fmt.Sprintf("%s %s without --insecure: status %d, %d requests reached the server, stdout %q, stderr %q", where, url, rc, nreq, so, firstN(se, 160)))
					v.Scenario = name
					v.Input = map[string]any{"url": url, "args": append(args, req)}
					res.SigCounts[v.Sig]++
					if res.SigCounts[v.Sig] == 1 {
						res.Violations = append(res.Violations, v)
					}
				}
			}
		}
		res.Extra["samples"] = samples
		res.Stats = vlab.Stats{Scenario: name, Execs: n, States: n, Transitions: n, Outcomes: 1, Exhaustive: true}
		return res
	}}
}

// two remote includes: one server answers nothing until --timeout has passed (its approved cached
// copy is used), the other has changed and is not approved: the invocation ends with 104 (not
// trusted), not with the timeout's status, and runs nothing
func c20SlowAndChangedUnit() *Unit {
	name := "slow-include-next-to-changed-unapproved-include"
	return &Unit{Name: name, Weight: 2, Custom: func(u *Unit, dir string, deadline time.Time) *vlab.UnitResult {
		res := &vlab.UnitResult{SigCounts: map[string]int{}, Extra: map[string]any{}}
		srv := &c20Server{content: "v1", mode: "up"}
		if err := srv.start(); err != nil {
			res.HarnessErr = err.Error()
			return res
		}
		defer srv.set("v1", "refusing")
		n := 0
		var samples []any
		base := "http://" + srv.addr + "/inc.yml"
		env := []string{"TASK_X_REMOTE_TASKFILES=1"}
		for _, order := range []string{"slow-first", "changed-first"} {
			a, b := "  slowinc: "+base+"?slow=1&ref=v1\n", "  changing: "+base+"\n"
			if order == "changed-first" {
				a, b = b, a
			}
			rootTF := "version: '3'\nincludes:\n" + a + b + "tasks:\n  local:\n    cmds: ['true']\n"
			os.RemoveAll(dir)
			os.MkdirAll(dir, 0o755)
			os.WriteFile(filepath.Join(dir, "Taskfile.yml"), []byte(rootTF), 0o644)
			srv.set("v1", "up")
			srv.mu.Lock()
			srv.slowOn = false
			srv.mu.Unlock()
			so0, se0, rc0 := RunCLI(dir, env, "", "--timeout", "20s", "--insecure", "--yes", "changing:show")
			n++
			hist := []string{"run-yes changing:show (both downloaded and approved)", "server-content-v2, slow include silent", "run --timeout 1s changing:show"}
			add := func(v vlab.Violation) {
				v.Scenario = name
				v.Input = map[string]any{"history": hist, "root_taskfile": rootTF}
				v.Trace = hist
				res.SigCounts[v.Sig]++
				if res.SigCounts[v.Sig] == 1 {
					res.Violations = append(res.Violations, v)
				}
			}
			if rc0 != 0 || !strings.Contains(so0, "REMOTE-v1") {
				add(vlab.V("C20", "approved_content_did_not_run", "two_includes:first_download", fmt.Sprintf("status %d stdout %q stderr %q", rc0, so0, firstN(se0, 160))))
				continue
			}
			srv.set("v2", "up")
			srv.mu.Lock()
			srv.slowOn = true
			srv.mu.Unlock()
			so, se, rc := RunCLI(dir, env, "", "--timeout", "1s", "--insecure", "changing:show")
			n++
			if len(samples) < 2 {
				samples = append(samples, map[string]any{"order": order, "status": rc, "stdout": so, "stderr": firstN(se, 120)})
			}
			if strings.Contains(so, "REMOTE-") {
				add(vlab.V("C20", "unapproved_content_ran", "two_includes:"+order, fmt.Sprintf("status %d stdout %q", rc, so)))
			}
			if rc != 104 {
				add(vlab.V("C20", "declined_download_not_104", fmt.Sprintf("two_includes:%s:got%d", order, rc), fmt.Sprintf("the changed include is not approved; status %d (stderr %q), expected 104", rc, firstN(se, 200))))
			}
		}
		res.Extra["samples"] = samples
		res.Stats = vlab.Stats{Scenario: name, Execs: n, States: n, Transitions: n, Outcomes: 1, Exhaustive: true}
		return res
	}}
}

// Approved content A, then the server hands out content B that differs from A only in bytes a
// "normalising" comparison might drop (carriage returns, trailing blanks, a byte-order mark, the
// final newline, letter case): B is different content, it is not approved, a run that cannot
// approve it ends with 104 and runs nothing of B.
func c20NearIdenticalContentUnit() *Unit {
	name := "content-changed-only-in-bytes-a-normaliser-would-drop"
	return &Unit{Name: name, Weight: 2, Custom: func(u *Unit, dir string, deadline time.Time) *vlab.UnitResult {
		res := &vlab.UnitResult{SigCounts: map[string]int{}, Extra: map[string]any{}}
		srv := &c20Server{content: "v1", mode: "up"}
		if err := srv.start(); err != nil {
			res.HarnessErr = err.Error()
			return res
		}
		defer srv.set("v1", "refusing")
		n := 0
		var samples []any
		env := []string{"TASK_X_REMOTE_TASKFILES=1"}
		a := "version: '3'\ntasks:\n  show:\n    cmds:\n      - echo REMOTE-A #      - echo SNEAKED-IN\n"
		for _, c := range []struct{ label, b string }{
			{"carriage-return-makes-a-comment-tail-a-command", strings.Replace(a, "#      -", "#\r      -", 1)},
			{"crlf-line-ends", strings.ReplaceAll(a, "\n", "\r\n")},
			{"trailing-blank", strings.Replace(a, "REMOTE-A #", "REMOTE-A  #", 1)},
			{"no-final-newline", strings.TrimSuffix(a, "\n")},
			{"byte-order-mark", "\ufeff" + a},
			{"letter-case", strings.Replace(a, "REMOTE-A", "REMOTE-a", 1)},
			{"tab-in-comment", strings.Replace(a, "#      -", "#\t      -", 1)},
		} {
			rootTF := "version: '3'\nincludes:\n  inc: http://" + srv.addr + "/inc.yml\ntasks:\n  local:\n    cmds: ['true']\n"
			os.RemoveAll(dir)
			os.MkdirAll(dir, 0o755)
			os.WriteFile(filepath.Join(dir, "Taskfile.yml"), []byte(rootTF), 0o644)
			srv.set("raw:"+a, "up")
			so0, se0, rc0 := RunCLI(dir, env, "", "--timeout", "20s", "--insecure", "--yes", "inc:show")
			n++
			hist := []string{"run-yes inc:show (content A downloaded and approved)", "server content B = A changed by " + c.label, "run inc:show (nobody to approve)"}
			add := func(v vlab.Violation) {
				v.Scenario = name
				v.Input = map[string]any{"history": hist, "content_a": a, "content_b": c.b}
				v.Trace = hist
				res.SigCounts[v.Sig]++
				if res.SigCounts[v.Sig] == 1 {
					res.Violations = append(res.Violations, v)
				}
			}
			if rc0 != 0 || !strings.Contains(so0, "REMOTE-A") {
				add(vlab.V("C20", "approved_content_did_not_run", "near_identical:first_download", fmt.Sprintf("status %d stdout %q stderr %q", rc0, so0, firstN(se0, 160))))
				continue
			}
			srv.set("raw:"+c.b, "up")
			so, se, rc := RunCLI(dir, env, "", "--timeout", "20s", "--insecure", "inc:show")
			n++
			if len(samples) < 2 {
				samples = append(samples, map[string]any{"change": c.label, "status": rc, "stdout": so, "stderr": firstN(se, 120)})
			}
			if strings.Contains(so, "REMOTE-") || strings.Contains(so, "SNEAKED") {
				add(vlab.V("C20", "unapproved_content_ran", "near_identical:"+c.label, fmt.Sprintf("content that differs from the approved one (%s) was executed without approval: status %d stdout %q", c.label, rc, so)))
			}
			if rc != 104 {
				add(vlab.V("C20", "declined_download_not_104", fmt.Sprintf("near_identical:%s:got%d", c.label, rc), fmt.Sprintf("the changed content is not approved; status %d (stderr %q), expected 104", rc, firstN(se, 200))))
			}
		}
		res.Extra["samples"] = samples
		res.Stats = vlab.Stats{Scenario: name, Execs: n, States: n, Transitions: n, Outcomes: 1, Exhaustive: true}
		return res
	}}
}

// A directory-style URL (the client probes the default Taskfile names below it): after the
// content was downloaded and approved, the probe of the file stops answering while the directory
// itself still answers: like any other download failure this falls back to the approved cached copy.
func c20DirectoryURLUnit() *Unit {
	name := "directory-url-whose-file-probe-stops-answering"
	return &Unit{Name: name, Weight: 2, Custom: func(u *Unit, dir string, deadline time.Time) *vlab.UnitResult {
		res := &vlab.UnitResult{SigCounts: map[string]int{}, Extra: map[string]any{}}
		srv := &c20Server{content: "v1", mode: "up"}
		if err := srv.start(); err != nil {
			res.HarnessErr = err.Error()
			return res
		}
		defer srv.set("v1", "refusing")
		env := []string{"TASK_X_REMOTE_TASKFILES=1"}
		rootTF := "version: '3'\nincludes:\n  inc: http://" + srv.addr + "/proj/\ntasks:\n  local:\n    cmds: ['true']\n"
		os.RemoveAll(dir)
		os.MkdirAll(dir, 0o755)
		os.WriteFile(filepath.Join(dir, "Taskfile.yml"), []byte(rootTF), 0o644)
		hist := []string{"run-yes inc:show (downloaded through the directory URL, approved)", "probe of /proj/Taskfile.yml stops answering", "run --timeout 2s inc:show"}
		add := func(v vlab.Violation) {
			v.Scenario = name
			v.Input = map[string]any{"history": hist, "root_taskfile": rootTF}
			v.Trace = hist
			res.SigCounts[v.Sig]++
			if res.SigCounts[v.Sig] == 1 {
				res.Violations = append(res.Violations, v)
			}
		}
		n := 0
		so0, se0, rc0 := RunCLI(dir, env, "", "--timeout", "20s", "--insecure", "--yes", "inc:show")
		n++
		if rc0 != 0 || !strings.Contains(so0, "REMOTE-v1") {
			add(vlab.V("C20", "approved_content_did_not_run", "directory_url:first_download", fmt.Sprintf("status %d stdout %q stderr %q", rc0, so0, firstN(se0, 160))))
		} else {
			for _, mode := range []string{"silent", "refusing"} {
				srv.set("v1", mode)
				so, se, rc := RunCLI(dir, env, "", "--timeout", "2s", "--insecure", "inc:show")
				n++
				if rc != 0 || !strings.Contains(so, "REMOTE-v1") {
					add(vlab.V("C20", "no_cache_fallback", fmt.Sprintf("directory_url:%s:got%d", mode, rc), fmt.Sprintf("the approved cached copy was not used when the download failed (%s): status %d stdout %q stderr %q", mode, rc, so, firstN(se, 200))))
				}
				srv.set("v1", "up")
			}
		}
		res.Extra["samples"] = []any{map[string]any{"first_status": rc0}}
		res.Stats = vlab.Stats{Scenario: name, Execs: n, States: n, Transitions: n, Outcomes: 1, Exhaustive: true}
		return res
	}}
}

func c20Units(tier string) []*Unit {
	return []*Unit{c20SlowAndChangedUnit(), c20NearIdenticalContentUnit(), c20DirectoryURLUnit(), c20Unit(tier, false), c20Unit(tier, true), c20TwoURLsUnit(), c20NestedUnit(), c20SchemeUnit()}
}
