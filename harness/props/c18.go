package props

import (
	"fmt"
	"runtime"
	"sort"
	"strings"
	"time"

	"github.com/go-task/task/v3/zverif/vlab"
)

func init() { registry["C18"] = c18Units }

// c18Check: no ThreadSanitizer report whose two access stacks both run through Task's own code.
func c18Check(x *vlab.Exec) []vlab.Violation {
	var out []vlab.Violation
	if x.Res.Panic != "" {
		out = append(out, vlab.V("C18", "panic", "", x.Res.Panic))
	}
	for _, r := range x.Races {
		out = append(out, vlab.V("C18", "race", r.Sig, "ThreadSanitizer report in an explored schedule:\n"+r.Text))
	}
	return out
}

func c18Units(tier string) []*Unit {
	type entry struct {
		name string
		sc   *vlab.Scenario
	}
	var es []entry
	add := func(name string, pg *Prog, opts vlab.Options, roots ...string) {
		if len(roots) == 0 {
			roots = []string{"root"}
		}
		sc := scen(name, pg, opts, roots...)
		es = append(es, entry{name, sc})
	}
	c01 := c01Progs()
	add("c01-diamond-once", c01["diamond-once"], vlab.Options{})
	add("c01-diamond-once-fail", c01["diamond-once-fail"], vlab.Options{})
	add("c01-diamond-when_changed-N2", c01["diamond-when_changed"], vlab.Options{Concurrency: 2})
	add("c01-twolevel-cancel", c01["twolevel-cancel"], vlab.Options{})
	add("c01-nested-call-in-dep-N1", c01["nested-call-in-dep"], vlab.Options{Concurrency: 1})
	c02 := c02Progs()
	add("c02-loops", c02["loops"], vlab.Options{})
	add("c02-two-callers-same-task", c02["two-callers-same-task"], vlab.Options{})
	add("c02-call-once-callee", c02["call-once-callee"], vlab.Options{})
	c06 := c06Specs()
	add("c06-when_changed-env", c06["when_changed-env"].pg, vlab.Options{})
	add("c06-when_changed-dynvar", c06["when_changed-dynvar"].pg, vlab.Options{})
	add("c06-once-failing", c06["once-failing"].pg, vlab.Options{})
	c07 := c07Specs()
	add("c07-parallel-roots-N2", c07["parallel-roots"].pg, vlab.Options{Concurrency: 2, Parallel: true}, "root", "r2")
	add("c07-fail-nested-N2", c07["fail-nested"].pg, vlab.Options{Concurrency: 2})
	c14 := c14Specs()
	add("c14-cancelled-by-sibling", c14["cancelled-by-sibling"].pg, vlab.Options{})
	add("c14-defer-task-call", c14["defer-task-call"].pg, vlab.Options{})
	// the same task with a templated defer running in two goroutines with different vars
	add("defer-same-task-parallel", &Prog{Tasks: []*T{
		{Name: "root", Deps: []Ref{{Task: "sub", Vars: [][2]string{{"X", "one"}}}, {Task: "sub", Vars: [][2]string{{"X", "two"}}}}},
		{Name: "sub", Cmds: []C{{Defer: true, Extra: "{{.X}}"}, {Extra: "{{.X}}"}}},
	}}, vlab.Options{})
	// a failing run: once task called from two tasks that ignore the error
	add("once-failing-two-callers", &Prog{Tasks: []*T{
		{Name: "root", Deps: []Ref{D("a"), D("b")}},
		{Name: "a", IgnoreError: true, Cmds: []C{CallS("s", "=")}},
		{Name: "b", IgnoreError: true, Cmds: []C{CallS("s", "=")}},
		{Name: "s", Run: "once", Cmds: []C{F()}},
	}}, vlab.Options{})
	// names resolved through wildcards and aliases concurrently
	add("wildcard-and-alias-resolution-parallel", &Prog{Tasks: []*T{
		{Name: "root", Deps: []Ref{{Task: "w-*", As: "w-1"}, {Task: "w-*", As: "w-2"}, {Task: "al", As: "alias1"}, {Task: "v-*-x", As: "v-9-x"}}},
		{Name: "w-*", Cmds: []C{P()}},
		{Name: "v-*-x", Cmds: []C{P()}},
		{Name: "al", Aliases: []string{"alias1"}, Cmds: []C{P()}},
	}}, vlab.Options{})
	// the error path of name resolution, taken by several dependencies at once ("did you mean")
	add("missing-tasks-resolved-in-parallel", &Prog{Tasks: []*T{
		{Name: "root", Deps: []Ref{{Task: "nope-1"}, {Task: "nope-2"}, {Task: "bulid"}}},
		{Name: "build", Cmds: []C{P()}},
	}}, vlab.Options{})
	// shell options declared once at Taskfile / task level, used by commands that start together
	add("shared-set-and-shopt-lists-parallel", &Prog{RawTop: []string{"set: [pipefail, errexit, nounset, errexit]", "shopt: [globstar, expand_aliases]"}, Tasks: []*T{
		{Name: "root", Deps: []Ref{D("a"), D("b")}},
		{Name: "a", RawLines: []string{"set: [xtrace, errexit]"}, Cmds: []C{P(), P()}},
		{Name: "b", Cmds: []C{P(), P()}},
	}}, vlab.Options{})
	// parallel for-loop over deps with a matrix whose rows are references
	add("matrix-ref-parallel-deps", &Prog{Tasks: []*T{
		{Name: "root", Deps: []Ref{
			{Task: "looper", ListVars: [][2]string{{"L", "a b"}}},
			{Task: "looper", ListVars: [][2]string{{"L", "c d"}}}}},
		{Name: "looper", Cmds: []C{{For: &vlab.For{MatrixRef: [][2]string{{"K", "L"}}}}}},
	}}, vlab.Options{})
	// dynamic variables with the same text, evaluated concurrently
	add("dynvars-parallel", &Prog{Vars: [][2]string{}, Tasks: []*T{
		{Name: "root", Deps: []Ref{D("a"), D("b")}},
		{Name: "a", RawLines: []string{"vars:", "  Y: {sh: 'echo val'}"}, Cmds: []C{{Extra: "{{.Y}}"}}},
		{Name: "b", RawLines: []string{"vars:", "  Y: {sh: 'echo val'}"}, Cmds: []C{{Extra: "{{.Y}}"}}},
	}}, vlab.Options{})
	// prefixed output with the commands announced ("task: [a] ..." goes through the logger while
	// another task's output lines go through the prefix writer, which colours the prefix with the
	// same logger)
	add("prefixed-output-with-announced-commands", &Prog{Tasks: []*T{
		{Name: "root", Deps: []Ref{D("a"), D("b")}},
		{Name: "a", Prefix: "A", Cmds: []C{P(), P()}},
		{Name: "b", Prefix: "B", Cmds: []C{P(), P()}},
	}}, vlab.Options{Output: "prefixed", NotSilent: true})
	// a parent called twice in parallel, each of its dependency / task-call entries passing only
	// constant variables (to a wildcard task, which gets MATCH set on the call's variables)
	add("constant-call-vars-of-a-parent-compiled-twice-in-parallel", &Prog{Tasks: []*T{
		{Name: "root", Deps: []Ref{{Task: "p", Vars: [][2]string{{"V", "1"}}}, {Task: "p", Vars: [][2]string{{"V", "2"}}}}},
		{Name: "p", Deps: []Ref{{Task: "q-*", As: "q-x", VP: "=", Vars: [][2]string{{"K", "const"}}}}, Cmds: []C{{Extra: "{{.V}}"}}},
		{Name: "q-*", Cmds: []C{{Extra: "{{.K}}"}}},
	}}, vlab.Options{})
	// output wrappers through the executor
	for _, mode := range []string{"group", "prefixed"} {
		u := c17Exec(mode, mode == "group", "quick")
		es = append(es, entry{"c17-executor-" + mode, u.Sc})
	}
	// --list-all --json (GetTaskList / ToEditorOutput goroutines)
	{
		pg := &Prog{Tasks: []*T{
			{Name: "a", Aliases: []string{"x"}, Cmds: []C{P()}},
			{Name: "b", Deps: []Ref{D("a")}, Cmds: []C{P()}},
			{Name: "c", Vars: [][2]string{{"V", "1"}}, Cmds: []C{{Extra: "{{.V}}"}}},
		}}
		sc := scen("list-all-json", pg, vlab.Options{ListJSON: true}, "a")
		es = append(es, entry{"list-all-json", sc})
	}
	// the reader on sibling includes (Setup under the scheduler)
	{
		sc := &vlab.Scenario{Name: "reader-sibling-includes", Opts: vlab.Options{SchedSetup: true}, Files: map[string]string{
			"Taskfile.yml": "version: '3'\nincludes:\n  one: ./one.yml\n  two: ./two.yml\n  three: ./one.yml\nvars:\n  G: root\ntasks:\n  root:\n    cmds:\n      - printf '%s\\n' 'P|root|0|@|'\n",
			"one.yml":      "version: '3'\nvars:\n  G: one\ntasks:\n  t:\n    cmds:\n      - printf '%s\\n' 'P|t|0|@|'\n",
			"two.yml":      "version: '3'\nincludes:\n  deep: ./one.yml\nvars:\n  G: two\ntasks:\n  t:\n    cmds:\n      - printf '%s\\n' 'P|t|0|@|'\n",
		}, Calls: []vlab.CallSpec{{Task: "root"}}}
		es = append(es, entry{sc.Name, sc})
	}
	// loading a diamond of mapping-form includes with different dirs and a dynamic global variable
	{
		sc := &vlab.Scenario{Name: "reader-diamond-dirs-dynvar", Opts: vlab.Options{SchedSetup: true}, Files: c09Configs()["diamond-dirs-dynvar"], Calls: []vlab.CallSpec{{Task: "show"}}}
		es = append(es, entry{sc.Name, sc})
	}
	// one command with two writers (both ends of a pipeline, a background job): the command's
	// wrapped writer is written from two goroutines at once
	for _, mode := range []string{"group", "prefixed"} {
		u := c17Direct(c17cfg{mode: mode, begin: mode == "group", end: mode == "group", threads: 2, pipe: true, small: true})
		es = append(es, entry{"c17-direct-" + mode + "-two-writers-per-command", u.Sc})
	}
	// ... and the second writer still writing when the command's close function runs (a background
	// job that outlives its command), with error_only, where close discards the buffer
	for _, eo := range []bool{false, true} {
		u := c17Direct(c17cfg{mode: "group", begin: true, end: true, errorOnly: eo, threads: 2, pipe: true, small: true, late: true})
		es = append(es, entry{fmt.Sprintf("c17-direct-group-second-writer-outlives-the-command-error_only=%v", eo), u.Sc})
	}
	sort.SliceStable(es, func(i, j int) bool { return es[i].name < es[j].name })
	var us []*Unit
	for _, e := range es {
		bound := 1
		maxW := 6
		dedicated := map[string]bool{"defer-same-task-parallel": true, "matrix-ref-parallel-deps": true, "dynvars-parallel": true,
			"once-failing-two-callers": true, "c17-executor-group": true, "c17-executor-prefixed": true, "reader-sibling-includes": true, "reader-diamond-dirs-dynvar": true,
			"shared-set-and-shopt-lists-parallel": true, "missing-tasks-resolved-in-parallel": true,
			"prefixed-output-with-announced-commands":  true,
			"c17-direct-group-two-writers-per-command": true, "c17-direct-prefixed-two-writers-per-command": true}
		heavy := map[string]bool{"c01-twolevel-cancel": true, "c01-nested-call-in-dep-N1": true, "c07-fail-nested-N2": true}
		switch {
		case dedicated[e.name]:
			bound = 2 // the small dedicated scenarios go one preemption deeper
			maxW = 5
		case heavy[e.name]:
			bound = 0
			maxW = 9
		}
		if tier == "thorough" {
			bound++
		}
		sc := e.sc
		sc.Name = e.name
		us = append(us, &Unit{Name: e.name, Sc: sc, Bound: bound, Prune: true, Check: c18Check, Weight: maxW, NoConfirm: true, Env: strings.HasPrefix(e.name, "c17-direct-")})
	}
	// Supplement (the property's own quantifier speaks of free-running schedules under varying
	// GOMAXPROCS): the same bodies with real goroutines and real primitives under the race
	// detector. This is sampling and decides nothing by its silence; a report is a report.
	for _, e := range es {
		e := e
		us = append(us, &Unit{Name: "free-running/" + e.name, Weight: 2, Custom: func(u *Unit, dir string, deadline time.Time) *vlab.UnitResult {
			res := &vlab.UnitResult{SigCounts: map[string]int{}, Extra: map[string]any{}}
			e.sc.Materialise(dir)
			iters := 6
			if tier == "thorough" {
				iters = 40
			}
			n := 0
			defer runtime.GOMAXPROCS(runtime.GOMAXPROCS(0))
			for _, procs := range []int{1, 2, 4, 8} {
				runtime.GOMAXPROCS(procs)
				for i := 0; i < iters; i++ {
					if e.sc.UsesFS {
						e.sc.ResetFS(dir)
					}
					x := &vlab.Exec{Aux: map[string]string{}}
					e.sc.Body(dir, x, &vlab.Probe{}, &vlab.RawWriter{})()
					n++
					for _, r := range vlab.CollectRaces() {
						v := vlab.V("C18", "race", r.Sig, "ThreadSanitizer report in a free-running execution (GOMAXPROCS="+fmt.Sprint(procs)+"):\n"+r.Text)
						v.Scenario = u.Name
						res.SigCounts[v.Sig]++
						if res.SigCounts[v.Sig] == 1 {
							res.Violations = append(res.Violations, v)
						}
					}
				}
			}
			res.Extra["samples"] = []any{map[string]any{"scenario": e.name, "free_running_executions": n, "gomaxprocs": []int{1, 2, 4, 8}}}
			res.Stats = vlab.Stats{Scenario: u.Name, Execs: n, States: 1, Transitions: n, Outcomes: 1, Exhaustive: false, Note: "free-running supplement: sampling, not exhaustive by nature"}
			return res
		}})
	}
	return us
}
