package props

import (
	"fmt"

	"github.com/go-task/task/v3/zverif/vlab"
)

// taskgraph(3): the systematically enumerated program space of the thorough tier. Tasks
// root, t1, t2; deps(Ti) ⊆ {Tj : j>i}; cmds(Ti) from a small menu of probes, failing probes
// and calls to later tasks; a task referenced more than once is tried as run: always and as
// run: once. Every program is explored under all schedules within the bound and checked with
// the trace oracles of C01, C02, C03 and C07 at once.
func taskgraphProgs() []*Prog {
	names := []string{"root", "t1", "t2"}
	type menu func(i int) [][]C
	cmdsFor := func(i int) [][]C {
		out := [][]C{{P()}, {P(), F()}}
		for j := i + 1; j < 3; j++ {
			out = append(out, []C{Call(names[j])}, []C{P(), Call(names[j]), P()})
		}
		return out
	}
	var progs []*Prog
	for d0 := 0; d0 < 4; d0++ { // deps of root ⊆ {t1,t2}
		for d1 := 0; d1 < 2; d1++ { // deps of t1 ⊆ {t2}
			for _, c0 := range cmdsFor(0) {
				for _, c1 := range cmdsFor(1) {
					for _, c2 := range cmdsFor(2) {
						mk := func(once map[string]bool) *Prog {
							ref := func(n string) Ref {
								if once[n] {
									return Ref{Task: n, VP: "="}
								}
								return Ref{Task: n}
							}
							fix := func(cs []C) []C {
								out := make([]C, len(cs))
								for i, c := range cs {
									out[i] = c
									if c.Call != nil {
										r := ref(c.Call.Task)
										out[i].Call = &r
									}
								}
								return out
							}
							t0 := &T{Name: "root", Cmds: fix(c0)}
							t1 := &T{Name: "t1", Cmds: fix(c1)}
							t2 := &T{Name: "t2", Cmds: fix(c2)}
							if d0&1 != 0 {
								t0.Deps = append(t0.Deps, ref("t1"))
							}
							if d0&2 != 0 {
								t0.Deps = append(t0.Deps, ref("t2"))
							}
							if d1&1 != 0 {
								t1.Deps = append(t1.Deps, ref("t2"))
							}
							for n := range once {
								if once[n] {
									map[string]*T{"t1": t1, "t2": t2}[n].Run = "once"
								}
							}
							return &Prog{Tasks: []*T{t0, t1, t2}}
						}
						base := mk(map[string]bool{})
						refs := base.Referrers()
						if refs["t1"] == 0 && refs["t2"] == 0 {
							continue // nothing but root: covered by the first program of that kind
						}
						progs = append(progs, base)
						for _, n := range []string{"t1", "t2"} {
							if refs[n] >= 2 {
								progs = append(progs, mk(map[string]bool{n: true}))
							}
						}
					}
				}
			}
		}
	}
	return progs
}

func hasFailure(pg *Prog) bool {
	for _, t := range pg.Tasks {
		for _, c := range t.Cmds {
			if c.Exit != 0 {
				return true
			}
		}
	}
	return false
}

func taskgraphUnits(prefix string, concs []int, bound int) []*Unit {
	var us []*Unit
	for i, pg := range taskgraphProgs() {
		for _, n := range concs {
			sc := scen(fmt.Sprintf("%s/p%03d/N%s", prefix, i, concName(n)), pg, vlab.Options{Concurrency: n}, "root")
			us = append(us, &Unit{Name: sc.Name, Sc: sc, Bound: bound, Prune: true, Weight: 1,
				Check: both(c01Check(pg), c02Check(pg), c03Check(pg, false), c07Check(pg, n, !hasFailure(pg)))})
		}
	}
	return us
}
