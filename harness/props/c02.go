package props

import (
	"fmt"
	"os"
	"path/filepath"
	"strings"
	"time"

	"github.com/go-task/task/v3/zverif/vlab"
)

func init() { registry["C02"] = c02Units }

// c02Check:
//
//	R1 own regular probe entries of an instance appear as S e1 F e1 S e2 F e2 ... in expansion
//	   order (a prefix of it), never overlapping, never repeated, never reordered;
//	R2 at the start of any entry — a probe of the instance itself or the first command of
//	   anything called from a task-call entry, at any depth — every earlier entry of the
//	   calling instance (including whole callee subtrees with their deps and defers) has
//	   completed;
//	R3 a callee's probes show exactly the variables of the call.
func c02Check(pg *Prog) func(x *vlab.Exec) []vlab.Violation {
	return func(x *vlab.Exec) []vlab.Violation {
		out := generic("C02", x)
		ev := vlab.ParseTrace(x.Trace)
		ti := vlab.IndexTrace(ev)
		byInst, order := vlab.Instances(ev)
		for _, in := range order {
			t := pg.Task(in.Task)
			if t == nil {
				continue
			}
			// R1
			exp := pg.ExpectedRegular(in)
			k := 0 // index into the alternating expected sequence
			for _, e := range byInst[in] {
				j, _ := e.CmdIndex()
				if j < len(t.Cmds) && t.Cmds[j].Defer {
					continue
				}
				want := ""
				wk := byte('S')
				if k/2 < len(exp) {
					want = exp[k/2]
					if k%2 == 1 {
						wk = 'F'
					}
				}
				if e.Idx != want || e.K != wk {
					out = append(out, vlab.V("C02", "order", orderTag(t, j),
						fmt.Sprintf("instance %s: event %c %s at position %d, expected %c %s (entries must run one at a time in declaration/loop order)", in, e.K, e.Idx, e.Pos, wk, want)))
					break
				}
				k++
			}
		}
		// R2 + R3
		for _, e := range ev {
			if e.K != 'S' || e.Task == "" {
				continue
			}
			t := pg.Task(e.Task)
			if t == nil {
				continue
			}
			j, item := e.CmdIndex()
			if j < len(t.Cmds) && !t.Cmds[j].Defer {
				if st, which := pg.PrevEntries(ti, e.Inst(), j, item, e.Pos); st != vlab.StOK {
					out = append(out, vlab.V("C02", "entry_started_before_previous_finished", entryTag(pg, t, which),
						fmt.Sprintf("%s entry %s started at position %d but earlier entry %s had not finished", e.Inst(), e.Idx, e.Pos, which)))
				}
			}
			// R2': when an entry starts, nothing below an earlier call entry of the same instance
			// is still running (whatever the outcome of that call was: a failed or cancelled
			// callee has wound down completely - deps, deferred commands - before the caller goes on)
			if j < len(t.Cmds) {
				for i, c := range t.Cmds {
					if c.Call == nil || c.Defer || c.Call.VP != "" || i == j || !(i < j || t.Cmds[j].Defer) {
						continue
					}
					base := e.VP + ">" + e.Task + fmt.Sprintf(".c%d", i)
					for _, l := range ev[e.Pos+1:] {
						if l.Task == "" || !strings.HasPrefix(l.VP, base) {
							continue
						}
						if rest := l.VP[len(base):]; rest == "" || rest[0] == '#' || rest[0] == '>' {
							out = append(out, vlab.V("C02", "callee_still_running_when_caller_continued", entryTag(pg, t, fmt.Sprint(i)),
								fmt.Sprintf("%s entry %s started at position %d while %s, reached through its earlier call entry %d, was still running (event %c %s at %d)", e.Inst(), e.Idx, e.Pos, l.Inst(), i, l.K, l.Idx, l.Pos)))
							break
						}
					}
				}
			}
			// walk up the call path
			cur := e.Inst()
			for depth := 0; depth < 12; depth++ {
				par, site, ok := vlab.ParentOf(cur)
				if !ok {
					break
				}
				kind, sj, sitem := vlab.SiteIndex(site)
				pt := pg.Task(par.Task)
				if pt == nil {
					break
				}
				if kind == 'c' && sj < len(pt.Cmds) && !pt.Cmds[sj].Defer {
					if st, which := pg.PrevEntries(ti, par, sj, sitem, e.Pos); st != vlab.StOK {
						out = append(out, vlab.V("C02", "callee_started_before_previous_entry_finished", entryTag(pg, pt, which),
							fmt.Sprintf("%s (called from %s entry %s) ran a command at position %d but earlier entry %s of the caller had not finished", e.Inst(), par, site, e.Pos, which)))
					}
				}
				cur = par
			}
			// R3: variables of the call
			if want, ok := expectedExtra(pg, e); ok && e.Extra != want {
				out = append(out, vlab.V("C02", "call_vars", "", fmt.Sprintf("%s entry %s printed vars %q, the call passed %q", e.Inst(), e.Idx, e.Extra, want)))
			}
		}
		return out
	}
}

func orderTag(t *T, j int) string {
	if j < len(t.Cmds) && t.Cmds[j].For != nil {
		if len(t.Cmds[j].For.Matrix) > 0 {
			return "matrix"
		}
		return "loop"
	}
	return "plain"
}

func entryTag(pg *Prog, t *T, which string) string {
	var j int
	fmt.Sscanf(which, "%d", &j)
	if j < len(t.Cmds) && t.Cmds[j].Call != nil {
		ct := pg.Task(t.Cmds[j].Call.Task)
		tag := "after_call"
		if ct != nil && pg.Mode(ct) != "always" {
			tag += ":" + pg.Mode(ct)
		}
		return tag
	}
	return "after_cmd"
}

// expectedExtra: programs that test call variables print "{{.X}}" in the callee and pass X at
// the reference; the expected value is the X of the reference that created this instance.
func expectedExtra(pg *Prog, e vlab.PE) (string, bool) {
	t := pg.Task(e.Task)
	j, item := e.CmdIndex()
	if j >= len(t.Cmds) || t.Cmds[j].Extra != "{{.X}}" {
		return "", false
	}
	par, site, ok := vlab.ParentOf(e.Inst())
	if !ok {
		return "", false
	}
	_ = item
	pt := pg.Task(par.Task)
	kind, sj, sitem := vlab.SiteIndex(site)
	var ref *Ref
	if kind == 'd' && sj < len(pt.Deps) {
		ref = &pt.Deps[sj]
	} else if kind == 'c' && sj < len(pt.Cmds) {
		ref = pt.Cmds[sj].Call
	}
	if ref == nil {
		return "", false
	}
	for _, v := range ref.Vars {
		if v[0] == "X" {
			val := v[1]
			if val == "{{.ITEM}}" && len(sitem) > 0 {
				val = sitem[1:]
			}
			return val, true
		}
	}
	return "", false
}

func c02Progs() map[string]*Prog {
	m := map[string]*Prog{}
	// a sibling dep tree (sib) creates interleavings with everything below "main"
	sib := &T{Name: "sib", Cmds: []C{P(), P()}}
	m["seq-calls"] = &Prog{Tasks: []*T{
		{Name: "root", Deps: []Ref{D("main"), D("sib")}},
		{Name: "main", Cmds: []C{P(), Call("x"), P(), Call("y"), P()}},
		{Name: "x", Cmds: []C{P(), P()}},
		{Name: "y", Deps: []Ref{D("z")}, Cmds: []C{P()}},
		{Name: "z", Cmds: []C{P()}},
		sib,
	}}
	m["nested-depth3-defer"] = &Prog{Tasks: []*T{
		{Name: "root", Deps: []Ref{D("main"), D("sib")}},
		{Name: "main", Cmds: []C{Call("l1"), P()}},
		{Name: "l1", Cmds: []C{{Defer: true}, Call("l2"), P()}},
		{Name: "l2", Cmds: []C{P(), Call("l3")}},
		{Name: "l3", Deps: []Ref{D("leaf")}, Cmds: []C{{Defer: true}, P()}},
		{Name: "leaf", Cmds: []C{P()}},
		sib,
	}}
	m["loops"] = &Prog{Tasks: []*T{
		{Name: "root", Deps: []Ref{D("main"), D("sib")}},
		{Name: "main", Cmds: []C{
			{For: &vlab.For{List: []string{"a", "b", "c"}}},
			{For: &vlab.For{Matrix: [][]string{{"K", "1", "2"}, {"L", "x", "y"}}}},
			{For: &vlab.For{List: []string{"p", "q"}}, Call: &Ref{Task: "callee", Vars: [][2]string{{"X", "{{.ITEM}}"}}}},
			P(),
		}},
		{Name: "callee", Cmds: []C{{Extra: "{{.X}}"}, {Extra: "{{.X}}"}}},
		sib,
	}}
	m["matrix-three-keys"] = &Prog{Tasks: []*T{
		{Name: "root", Deps: []Ref{D("main"), D("sib")}},
		{Name: "main", Cmds: []C{
			{For: &vlab.For{Matrix: [][]string{{"K", "1", "2"}, {"L", "x", "y", "z"}, {"M", "p", "q"}}}},
			{For: &vlab.For{Matrix: [][]string{{"K", "1", "2"}, {"L", "x", "y"}, {"M", "p", "q"}}}, Call: &Ref{Task: "callee"}},
			P(),
		}},
		{Name: "callee", Cmds: []C{P()}},
		sib,
	}}
	m["loop-var"] = &Prog{Tasks: []*T{
		{Name: "root", Deps: []Ref{D("main"), D("sib")}},
		{Name: "main", Vars: [][2]string{{"LIST", "u v w"}}, Cmds: []C{
			{For: &vlab.For{Var: "LIST"}},
			{Call: &Ref{Task: "callee", Vars: [][2]string{{"X", "one"}}}},
			{Call: &Ref{Task: "callee", Vars: [][2]string{{"X", "two"}}}},
		}},
		{Name: "callee", Cmds: []C{{Extra: "{{.X}}"}}},
		sib,
	}}
	m["matrix-ref"] = &Prog{Tasks: []*T{
		{Name: "root", Deps: []Ref{D("main"), D("sib")}},
		{Name: "main", Cmds: []C{
			{Call: &Ref{Task: "looper", ListVars: [][2]string{{"L", "a b"}}}},
			{Call: &Ref{Task: "looper", ListVars: [][2]string{{"L", "c"}}}},
		}},
		{Name: "looper", Cmds: []C{{For: &vlab.For{MatrixRef: [][2]string{{"K", "L"}}}}, P()}},
		sib,
	}}
	m["matrix-ref-row-before-literal-row"] = &Prog{Tasks: []*T{
		{Name: "root", Deps: []Ref{D("main"), D("sib")}},
		{Name: "main", Cmds: []C{
			{Call: &Ref{Task: "looper", ListVars: [][2]string{{"L", "dev prod"}}}},
		}},
		{Name: "looper", Cmds: []C{{For: &vlab.For{Matrix: [][]string{{"ENVN", "@ref", "L"}, {"ACT", "build", "push"}}}}, P()}},
		sib,
	}}
	m["shared-once-callee-first-caller-cancelled"] = &Prog{Tasks: []*T{
		{Name: "root", Deps: []Ref{D("p"), D("q")}},
		{Name: "p", Deps: []Ref{D("m1"), D("x")}},
		{Name: "m1", Cmds: []C{CallS("s", "="), P()}},
		{Name: "q", Cmds: []C{CallS("s", "="), P()}},
		{Name: "x", Cmds: []C{P(), F()}},
		{Name: "s", Run: "once", Cmds: []C{{Defer: true}, P(), P()}},
	}}
	m["call-once-callee"] = &Prog{Tasks: []*T{
		{Name: "root", Deps: []Ref{D("main"), D("other")}},
		{Name: "main", Cmds: []C{P(), CallS("s", "="), P()}},
		{Name: "other", Cmds: []C{CallS("s", "="), P()}},
		{Name: "s", Run: "once", Cmds: []C{{Defer: true}, P(), P()}},
	}}
	// a callee whose dependency group fails while another of its deps (with a defer) is still
	// running; the caller ignores the failure and goes on, and has a defer of its own
	m["ignored-callee-with-failing-dep-group"] = &Prog{Tasks: []*T{
		{Name: "root", IgnoreError: true, Cmds: []C{{Defer: true}, Call("c"), P()}},
		{Name: "c", Deps: []Ref{D("slow"), D("bad")}, Cmds: []C{P()}},
		{Name: "slow", Cmds: []C{{Defer: true}, P(), P()}},
		{Name: "bad", Cmds: []C{F()}},
	}}
	m["two-callers-same-task"] = &Prog{Tasks: []*T{
		{Name: "root", Deps: []Ref{D("m1"), D("m2")}},
		{Name: "m1", Cmds: []C{{Call: &Ref{Task: "callee", Vars: [][2]string{{"X", "from1"}}}}, P()}},
		{Name: "m2", Cmds: []C{{Call: &Ref{Task: "callee", Vars: [][2]string{{"X", "from2"}}}}, P()}},
		{Name: "callee", Cmds: []C{{Extra: "{{.X}}"}, {Extra: "{{.X}}"}}},
	}}
	return m
}

func c02Units(tier string) []*Unit {
	var us []*Unit
	progs := c02Progs()
	for _, name := range sortedProgNames(progs) {
		pg := progs[name]
		concs := []int{0}
		if tier == "thorough" || name == "seq-calls" || name == "call-once-callee" {
			concs = []int{0, 1, 2}
		}
		for _, conc := range concs {
			bound := 2
			if len(pg.Tasks) > 5 {
				bound = 1
			}
			if tier == "thorough" {
				bound++
			}
			sc := scen(fmt.Sprintf("%s/c%s", name, concName(conc)), pg, vlab.Options{Concurrency: conc}, "root")
			us = append(us, &Unit{Name: sc.Name, Sc: sc, Bound: bound, Prune: true, Check: both(c02Check(pg), c01Check(pg)), Weight: len(pg.Tasks)})
		}
	}
	us = append(us, c02ExternalProcessUnit(), c02LoopScopeUnit(), c02RefInLoopUnit(), c02IncludedCalleeUnit(), c02IncludedOnceCalleesUnit())
	return us
}

func both(fs ...func(x *vlab.Exec) []vlab.Violation) func(x *vlab.Exec) []vlab.Violation {
	return func(x *vlab.Exec) []vlab.Violation {
		var out []vlab.Violation
		for i, f := range fs {
			vs := f(x)
			if i > 0 {
				// drop duplicate generic violations
				var keep []vlab.Violation
				for _, v := range vs {
					if v.Clause != "panic" {
						keep = append(keep, v)
					}
				}
				vs = keep
			}
			out = append(out, vs...)
		}
		return out
	}
}

// Entries that are external processes (everything else in this check uses shell builtins, which
// end with the interpreter): a process that takes its time to die after the interrupt that a
// failing sibling causes is still part of its entry; the task's deferred command and the end of
// the invocation come after it. The oracle is an order of appended lines, not a duration: on a
// tree that waits for the process the order is the same however slow the machine is.
func c02ExternalProcessUnit() *Unit {
	name := "external-process-outlives-interrupt"
	return &Unit{Name: name, Weight: 1, Custom: func(u *Unit, dir string, deadline time.Time) *vlab.UnitResult {
		res := &vlab.UnitResult{SigCounts: map[string]int{}, Extra: map[string]any{}}
		n := 0
		var samples []any
		for _, variant := range []string{"deps", "parallel"} {
			tf := "version: '3'\ntasks:\n  default:\n    deps: [slow, bad]\n" +
				"  slow:\n    cmds:\n      - defer: echo deferred >> log.txt\n      - sh -c 'trap \"\" INT TERM; echo started >> log.txt; sleep 1; echo slow-done >> log.txt'\n      - echo next-entry >> log.txt\n" +
				"  bad:\n    cmds:\n      - sh -c 'while ! grep -q started log.txt 2>/dev/null; do sleep 0.05; done; exit 3'\n"
			files := map[string]string{"Taskfile.yml": tf}
			os.RemoveAll(dir)
			os.MkdirAll(dir, 0o755)
			os.WriteFile(filepath.Join(dir, "Taskfile.yml"), []byte(tf), 0o644)
			args := []string{"--silent"}
			if variant == "parallel" {
				args = append(args, "--parallel", "slow", "bad")
			}
			_, se, rc := RunCLI(dir, nil, "", args...)
			n++
			b, _ := os.ReadFile(filepath.Join(dir, "log.txt"))
			lines := strings.Fields(string(b))
			got := strings.Join(lines, ",")
			if len(samples) < 2 {
				samples = append(samples, map[string]any{"variant": variant, "status": rc, "log": got})
			}
			add := func(v vlab.Violation) {
				v.Scenario = name
				v.Input = map[string]any{"files": files, "args": args}
				v.Trace = lines
				res.SigCounts[v.Sig]++
				if res.SigCounts[v.Sig] == 1 {
					res.Violations = append(res.Violations, v)
				}
			}
			if rc == 0 {
				add(vlab.V("C02", "external_process", variant+":status_zero", "a dependency failed with 3 but the invocation succeeded: "+firstN(se, 120)))
			}
			// the interrupted command failed or not (it ignored the signal and exited 0; either way
			// the deferred command comes after its last line, and "next-entry" only after it too)
			pos := func(s string) int {
				for i, l := range lines {
					if l == s {
						return i
					}
				}
				return -1
			}
			if d, f := pos("deferred"), pos("slow-done"); d < 0 || f < 0 || d < f {
				add(vlab.V("C02", "external_process", variant+":deferred_before_process_finished", fmt.Sprintf("log %q: the deferred command must run, and only after the interrupted process of the previous entry has exited", got)))
			}
			if ne, f := pos("next-entry"), pos("slow-done"); ne >= 0 && (f < 0 || ne < f) {
				add(vlab.V("C02", "external_process", variant+":next_entry_before_process_finished", fmt.Sprintf("log %q", got)))
			}
		}
		res.Extra["samples"] = samples
		res.Stats = vlab.Stats{Scenario: name, Execs: n, States: n, Transitions: n, Outcomes: 1, Exhaustive: true}
		return res
	}}
}

// The iterator of a for loop is visible inside that loop only: afterwards the name means what
// it meant before (a task variable of the same name, or nothing), in later loops too.
func c02LoopScopeUnit() *Unit {
	pr := func(idx, extra string) string {
		return "printf '%s\\n' 'P|main|" + idx + "|@|" + extra + "'"
	}
	tf := "version: '3'\ntasks:\n  main:\n    vars: {ENVN: prod, ITEM: outer, STAGES: 'dev test'}\n    cmds:\n" +
		"      - for: {var: STAGES, as: ENVN}\n        cmd: " + pr("0#{{.ENVN}}", "in-loop ENVN={{.ENVN}}") + "\n" +
		"      - for: [a, b]\n        cmd: " + pr("1#{{.ITEM}}", "ITEM={{.ITEM}} ENVN={{.ENVN}}") + "\n" +
		"      - " + pr("2", "ITEM={{.ITEM}} ENVN={{.ENVN}}") + "\n" +
		"      - for: [c]\n        task: callee\n        vars: {X: '{{.ENVN}}-{{.ITEM}}'}\n" +
		"  callee:\n    cmds:\n      - printf '%s\\n' 'P|callee|0|@>main.c3|X={{.X}}'\n"
	sc := &vlab.Scenario{Name: "loop-iterator-scope/cinf", Files: map[string]string{"Taskfile.yml": tf}, Calls: []vlab.CallSpec{{Task: "main"}}}
	want := []string{"in-loop ENVN=dev", "in-loop ENVN=test", "ITEM=a ENVN=prod", "ITEM=b ENVN=prod", "ITEM=outer ENVN=prod", "X=prod-c"}
	return &Unit{Name: sc.Name, Sc: sc, Bound: 0, Prune: false, Weight: 1, Check: func(x *vlab.Exec) []vlab.Violation {
		out := generic("C02", x)
		var got []string
		for _, e := range vlab.ParseTrace(x.Trace) {
			if e.K == 'S' && e.Task != "" {
				got = append(got, e.Extra)
			}
		}
		if x.Code != 0 || strings.Join(got, "|") != strings.Join(want, "|") {
			out = append(out, vlab.V("C02", "loop_variable_scope", "", fmt.Sprintf("entries ran with %q (status %d %s), expected %q", got, x.Code, firstN(x.ErrStr, 100), want)))
		}
		return out
	}}
}

// The variables of a call reach a callee that lives in an included Taskfile (map form) which
// declares a top-level variable of the same name.
func c02IncludedCalleeUnit() *Unit {
	files := map[string]string{
		"Taskfile.yml": "version: '3'\nincludes:\n  lib:\n    taskfile: ./lib.yml\ntasks:\n  main:\n    deps:\n      - task: lib:callee\n        vars: {X: from-dep, VP: '@>main.d0'}\n    cmds:\n      - task: lib:callee\n        vars: {X: from-call, VP: '@>main.c0'}\n      - for: [one, two]\n        task: lib:callee\n        vars: {X: 'item-{{.ITEM}}', VP: '@>main.c1#{{.ITEM}}'}\n",
		"lib.yml":      "version: '3'\nvars:\n  X: lib-default\n  Y: lib-only\ntasks:\n  callee:\n    cmds:\n      - printf '%s\\n' 'P|lib:callee|0|{{.VP}}|X={{.X}} Y={{.Y}}'\n",
	}
	sc := &vlab.Scenario{Name: "call-vars-into-included-taskfile/cinf", Files: files, Calls: []vlab.CallSpec{{Task: "main"}}}
	want := map[string]string{"@>main.d0": "X=from-dep Y=lib-only", "@>main.c0": "X=from-call Y=lib-only", "@>main.c1#one": "X=item-one Y=lib-only", "@>main.c1#two": "X=item-two Y=lib-only"}
	return &Unit{Name: sc.Name, Sc: sc, Bound: 0, Prune: false, Weight: 1, Check: func(x *vlab.Exec) []vlab.Violation {
		out := generic("C02", x)
		got := map[string]string{}
		for _, e := range vlab.ParseTrace(x.Trace) {
			if e.K == 'S' && e.Task != "" {
				got[e.VP] = e.Extra
			}
		}
		for vp, w := range want {
			if got[vp] != w {
				out = append(out, vlab.V("C02", "call_vars", "included_callee", fmt.Sprintf("the call at %s printed %q, the call passed %q (status %d %s)", vp, got[vp], w, x.Code, firstN(x.ErrStr, 80))))
				break
			}
		}
		return out
	}}
}

// Two different run-once tasks of an included Taskfile whose names end in the same segment, called
// one after the other: each call runs its own callee to the end before the caller goes on.
func c02IncludedOnceCalleesUnit() *Unit {
	line := func(task string, idx int, vp string) string {
		return fmt.Sprintf("      - printf '%%s\\n' 'P|%s|%d|%s|'\n", task, idx, vp)
	}
	files := map[string]string{
		"Taskfile.yml": "version: '3'\nincludes:\n  inc: ./inc.yml\ntasks:\n  main:\n    cmds:\n      - task: inc:image:build\n      - task: inc:chart:build\n" + line("main", 2, "@"),
		"inc.yml": "version: '3'\ntasks:\n  'image:build':\n    run: once\n    cmds:\n" + line("inc:image:build", 0, "=") +
			"  'chart:build':\n    run: once\n    cmds:\n" + line("inc:chart:build", 0, "="),
	}
	pg := &Prog{Tasks: []*T{
		{Name: "main", Cmds: []C{CallS("inc:image:build", "="), CallS("inc:chart:build", "="), P()}},
		{Name: "inc:image:build", Run: "once", Cmds: []C{P()}},
		{Name: "inc:chart:build", Run: "once", Cmds: []C{P()}},
	}}
	sc := &vlab.Scenario{Name: "once-callees-in-include-same-last-segment/cinf", Files: files, Spec: pg, Calls: []vlab.CallSpec{{Task: "main", Vars: [][2]string{{"VP", "@"}}}}}
	return &Unit{Name: sc.Name, Sc: sc, Bound: 0, Prune: false, Weight: 1, Check: c02Check(pg)}
}

// Call variables given as references ({ref: .ITEM}) inside a for loop (cmds and deps, list and
// matrix): the callee sees the loop's item, as it does for the template form '{{.ITEM}}'.
func c02RefInLoopUnit() *Unit {
	tf := "version: '3'\ntasks:\n  main:\n    deps:\n      - for: [d]\n        task: callee\n        vars: {X: {ref: .ITEM}, W: dep}\n    cmds:\n" +
		"      - for: [a, b]\n        task: callee\n        vars: {X: {ref: .ITEM}, W: list}\n" +
		"      - for: {matrix: {K: [p, q]}}\n        task: callee\n        vars: {X: {ref: .ITEM.K}, W: matrix}\n" +
		"      - for: [t]\n        task: callee\n        vars: {X: '{{.ITEM}}', W: template}\n" +
		"  callee:\n    cmds:\n      - printf '%s\\n' 'P|callee|0|=|{{.W}}:X={{.X}}'\n"
	sc := &vlab.Scenario{Name: "call-vars-by-reference-to-the-loop-item/cinf", Files: map[string]string{"Taskfile.yml": tf}, Calls: []vlab.CallSpec{{Task: "main"}}}
	want := []string{"dep:X=d", "list:X=a", "list:X=b", "matrix:X=p", "matrix:X=q", "template:X=t"}
	return &Unit{Name: sc.Name, Sc: sc, Bound: 0, Prune: false, Weight: 1, Check: func(x *vlab.Exec) []vlab.Violation {
		out := generic("C02", x)
		var got []string
		for _, e := range vlab.ParseTrace(x.Trace) {
			if e.K == 'S' && e.Task == "callee" {
				got = append(got, e.Extra)
			}
		}
		if x.Code != 0 || strings.Join(got, "|") != strings.Join(want, "|") {
			out = append(out, vlab.V("C02", "call_vars", "ref_to_loop_item", fmt.Sprintf("the callee ran with %q (status %d %s), expected %q", got, x.Code, firstN(x.ErrStr, 100), want)))
		}
		return out
	}}
}
