package props

import (
	"fmt"
	"strings"

	"github.com/go-task/task/v3/zverif/vlab"
)

func init() { registry["C03"] = c03Units }

// isFailure: the probe event e is a failing command whose failure nothing on its own task covers.
func isFailure(pg *Prog, e vlab.PE) bool {
	t := pg.Task(e.Task)
	if t == nil {
		return false
	}
	j, _ := e.CmdIndex()
	if j >= len(t.Cmds) {
		return false
	}
	c := t.Cmds[j]
	return pg.ExitOf(e.Inst(), j) != 0 && !c.IgnoreError && !t.IgnoreError && !c.Defer
}

// later reports whether (j2,item2) comes after (j,item) in expansion order of task t.
func laterEntry(pg *Prog, in vlab.Inst, j int, item string, j2 int, item2 string) bool {
	if j2 != j {
		return j2 > j
	}
	t := pg.Task(in.Task)
	items := t.Cmds[j].For.Items(pg.InstVars(in))
	a, b := -1, -1
	for i, it := range items {
		if it == item {
			a = i
		}
		if it == item2 {
			b = i
		}
	}
	return b > a
}

// c03Check (trace part): after a non-ignored failing command finished,
//
//	F1 no later regular entry of that task instance starts;
//	F2 no ancestor on its call path (caller through a task-call entry, or dependent through
//	   deps) starts a further regular entry or a further callee — up to an ancestor whose
//	   ignore_error covers a failing task-call entry;
//	F3 the invocation reports failure (status 201, or the command's own code with --exit-code)
//	   unless an ignore_error covered it;
//	F4 when every failure is covered by ignore_error the invocation succeeds and runs everything.
func c03Check(pg *Prog, exitCodeFlag bool) func(x *vlab.Exec) []vlab.Violation {
	return func(x *vlab.Exec) []vlab.Violation {
		out := generic("C03", x)
		ev := vlab.ParseTrace(x.Trace)
		uncovered := false
		wantCode := 0
		for _, f := range ev {
			if f.K != 'F' || f.Task == "" || !isFailure(pg, f) {
				continue
			}
			// chain of instances that must stop: (instance, site index after which nothing may start)
			type stop struct {
				in   vlab.Inst
				j    int
				item string
				dep  bool // failure arrived through deps: no regular entry at all may start
			}
			fj, fitem := f.CmdIndex()
			chain := []stop{{f.Inst(), fj, fitem, false}}
			cur := f.Inst()
			covered := false
			for depth := 0; depth < 12; depth++ {
				par, site, ok := vlab.ParentOf(cur)
				if !ok {
					break
				}
				kind, sj, sitem := vlab.SiteIndex(site)
				pt := pg.Task(par.Task)
				if pt == nil {
					break
				}
				if kind == 'c' && sj < len(pt.Cmds) && pt.Cmds[sj].Defer {
					covered = true // failures inside deferred calls never propagate
					break
				}
				if kind == 'c' && pt.IgnoreError {
					covered = true // task-level ignore_error of the caller covers the failing call entry
					break
				}
				chain = append(chain, stop{par, sj, sitem, kind == 'd'})
				cur = par
			}
			_, _, rooted := vlab.ParentOf(cur)
			sharedRoot := !rooted && strings.HasPrefix(cur.VP, "=")
			if !covered && !sharedRoot {
				uncovered = true
				if wantCode == 0 {
					wantCode = pg.Task(f.Task).Cmds[fj].Exit
				}
			}
			if sharedRoot {
				// a deduplicated task failed: every referrer must fail (C01/C06 check that no dependent
				// proceeds); the invocation must fail as well
				uncovered = true
				if wantCode == 0 {
					wantCode = pg.Task(f.Task).Cmds[fj].Exit
				}
			}
			for _, e := range ev {
				if e.Pos <= f.Pos || e.K != 'S' || e.Task == "" {
					continue
				}
				et := pg.Task(e.Task)
				ej, eitem := e.CmdIndex()
				if et == nil || ej >= len(et.Cmds) || et.Cmds[ej].Defer {
					continue
				}
				for ci, st := range chain {
					// own regular entries of the stopped instance
					if e.Inst() == st.in {
						if st.dep || laterEntry(pg, st.in, st.j, st.item, ej, eitem) {
							clause := "later_command_started"
							if ci > 0 {
								clause = "caller_or_dependent_continued"
							}
							out = append(out, vlab.V("C03", clause, failTag(ci, st.dep),
								fmt.Sprintf("%s entry %s started at position %d after %s entry %s had failed at position %d", e.Inst(), e.Idx, e.Pos, f.Inst(), f.Idx, f.Pos)))
						}
						continue
					}
					// anything called from a later task-call entry of the stopped instance
					c2 := e.Inst()
					for d := 0; d < 12; d++ {
						par, site, ok := vlab.ParentOf(c2)
						if !ok {
							break
						}
						if par == st.in {
							kind, sj, sitem := vlab.SiteIndex(site)
							if kind == 'c' && sj < len(pg.Task(par.Task).Cmds) && !pg.Task(par.Task).Cmds[sj].Defer &&
								(st.dep || laterEntry(pg, st.in, st.j, st.item, sj, sitem)) {
								out = append(out, vlab.V("C03", "caller_or_dependent_continued", failTag(ci, st.dep)+":callee",
									fmt.Sprintf("%s (called from a later entry %s of %s) ran at position %d after %s entry %s had failed at position %d", e.Inst(), site, par, e.Pos, f.Inst(), f.Idx, f.Pos)))
							}
							break
						}
						c2 = par
					}
				}
			}
		}
		if x.Res.Deadlock || x.Res.Horizon {
			// the invocation must END with a status
			kind := "deadlock"
			if x.Res.Horizon {
				kind = "horizon"
			}
			return append(out, vlab.V("C03", "invocation_did_not_end", kind, fmt.Sprintf("after a command failed the invocation never ended (%s: %v)", kind, x.Res.Blocked)))
		}
		if x.Res.Panic != "" {
			return out
		}
		if uncovered {
			want := 201
			if exitCodeFlag {
				want = wantCode
			}
			if x.Code == 0 {
				out = append(out, vlab.V("C03", "status_zero_after_failure", "", fmt.Sprintf("a command failed un-ignored but the invocation ended with status 0 (err=%q)", x.ErrStr)))
			} else if x.Code != want && !multiFail(pg, ev) {
				out = append(out, vlab.V("C03", "status_class", fmt.Sprintf("got%d:want%s:%s", x.Code, wantStr(want, exitCodeFlag), failPos(pg, ev)),
					fmt.Sprintf("invocation ended with status %d (err=%q); expected %d", x.Code, x.ErrStr, want)))
			} else if multiFail(pg, ev) {
				// several commands failed: which one is reported depends on the schedule, the class does not
				if v := severalFailuresStatus(pg, ev, x, exitCodeFlag); v != nil {
					out = append(out, *v)
				}
			}
		} else {
			if x.Code != 0 {
				out = append(out, vlab.V("C03", "ignored_failure_changed_status", "", fmt.Sprintf("every failure was covered by ignore_error but the invocation ended with status %d (err=%q)", x.Code, x.ErrStr)))
			} else if root := rootInst(x); root != nil {
				ti := vlab.IndexTrace(ev)
				if st := pg.Completed(ti, *root, len(ev)+1, 0); st == vlab.StNotFinished {
					out = append(out, vlab.V("C03", "ignored_failure_stopped_work", "", "every failure was covered by ignore_error and the invocation succeeded, but not every command ran"))
				}
			}
		}
		return out
	}
}

func severalFailuresStatus(pg *Prog, ev []vlab.PE, x *vlab.Exec, exitCodeFlag bool) *vlab.Violation {
	codes := map[int]bool{}
	for _, e := range ev {
		if e.K == 'F' && e.Task != "" && isFailure(pg, e) {
			j, _ := e.CmdIndex()
			codes[pg.ExitOf(e.Inst(), j)] = true
		}
	}
	if !exitCodeFlag && x.Code != 201 {
		v := vlab.V("C03", "status_class", fmt.Sprintf("got%d:want201:several_failures", x.Code), fmt.Sprintf("several commands failed; the invocation ended with status %d (err=%q), expected the task-run class 201", x.Code, x.ErrStr))
		return &v
	}
	if exitCodeFlag && !codes[x.Code] {
		v := vlab.V("C03", "status_class", fmt.Sprintf("got%d:want_own_code:several_failures", x.Code), fmt.Sprintf("several commands failed with %v; with --exit-code the invocation ended with status %d (err=%q)", codes, x.Code, x.ErrStr))
		return &v
	}
	return nil
}

func rootInst(x *vlab.Exec) *vlab.Inst { return &vlab.Inst{Task: "root", VP: "@"} }

func failTag(ci int, dep bool) string {
	if ci == 0 {
		return "same_task"
	}
	if dep {
		return "dependent"
	}
	return "caller"
}

// multiFail: more than one distinct failing command finished (then which one the status
// reflects is schedule dependent and not constrained).
func multiFail(pg *Prog, ev []vlab.PE) bool {
	n := 0
	for _, e := range ev {
		if e.K == 'F' && e.Task != "" && isFailure(pg, e) {
			n++
		}
	}
	return n > 1
}

// failPos classifies where the (single) failure sits relative to the called task.
func failPos(pg *Prog, ev []vlab.PE) string {
	for _, e := range ev {
		if e.K == 'F' && e.Task != "" && isFailure(pg, e) {
			cur := e.Inst()
			path := ""
			for d := 0; d < 12; d++ {
				par, site, ok := vlab.ParentOf(cur)
				if !ok {
					break
				}
				path = string(site[0]) + path
				cur = par
			}
			if strings.HasPrefix(cur.VP, "=") {
				path = "shared" + path
			}
			if path == "" {
				return "direct"
			}
			return "via_" + path
		}
	}
	return "none"
}

func c03Progs() map[string]*Prog {
	m := map[string]*Prog{}
	sib := &T{Name: "sib", Cmds: []C{P(), P()}}
	m["fail-direct"] = &Prog{Tasks: []*T{
		{Name: "root", Deps: []Ref{D("sib")}, Cmds: []C{P(), F(), P(), Call("x")}},
		{Name: "x", Cmds: []C{P()}},
		sib,
	}}
	m["fail-in-dep"] = &Prog{Tasks: []*T{
		{Name: "root", Deps: []Ref{D("a"), D("sib")}, Cmds: []C{P(), Call("x")}},
		{Name: "a", Deps: []Ref{D("b")}, Cmds: []C{P()}},
		{Name: "b", Cmds: []C{P(), F(), P()}},
		{Name: "x", Cmds: []C{P()}},
		sib,
	}}
	// the failing dependency is declared after a sibling that is still busy when it fails
	m["fail-in-dep-declared-last"] = &Prog{Tasks: []*T{
		{Name: "root", Deps: []Ref{D("sib"), D("a")}, Cmds: []C{P(), Call("x")}},
		{Name: "a", Cmds: []C{P(), F(), P()}},
		{Name: "x", Cmds: []C{P()}},
		sib,
	}}
	// ignore_error on a task CALL does not cover a failing, unmarked command of the callee
	m["ignore-on-call-does-not-cover-callee"] = &Prog{Tasks: []*T{
		{Name: "root", Deps: []Ref{D("sib")}, Cmds: []C{P(), {Call: &Ref{Task: "a"}, IgnoreError: true}, P()}},
		{Name: "a", Cmds: []C{P(), F(), P()}},
		sib,
	}}
	m["fail-in-nested-call"] = &Prog{Tasks: []*T{
		{Name: "root", Deps: []Ref{D("sib")}, Cmds: []C{P(), Call("a"), P()}},
		{Name: "a", Cmds: []C{Call("b"), P(), Call("x")}},
		{Name: "b", Cmds: []C{P(), F(), P()}},
		{Name: "x", Cmds: []C{P()}},
		sib,
	}}
	m["fail-in-shared-once"] = &Prog{Tasks: []*T{
		{Name: "root", Deps: []Ref{D("a"), D("b")}, Cmds: []C{P()}},
		{Name: "a", Deps: []Ref{DS("s", "=")}, Cmds: []C{P()}},
		{Name: "b", Cmds: []C{CallS("s", "="), P()}},
		{Name: "s", Run: "once", Cmds: []C{P(), F()}},
	}}
	m["ignore-cmd"] = &Prog{Tasks: []*T{
		{Name: "root", Deps: []Ref{D("sib")}, Cmds: []C{P(), {Exit: 3, IgnoreError: true}, P(), Call("a"), P()}},
		{Name: "a", Cmds: []C{{Exit: 4, IgnoreError: true}, P()}},
		sib,
	}}
	m["ignore-cmd-then-fail"] = &Prog{Tasks: []*T{
		{Name: "root", Deps: []Ref{D("sib")}, Cmds: []C{{Exit: 3, IgnoreError: true}, P(), Fx(5), P()}},
		sib,
	}}
	m["ignore-task"] = &Prog{Tasks: []*T{
		{Name: "root", Deps: []Ref{D("sib")}, Cmds: []C{P(), Call("a"), P()}},
		{Name: "a", IgnoreError: true, Cmds: []C{F(), P(), Fx(7), P()}},
		sib,
	}}
	m["ignore-for-loop"] = &Prog{Tasks: []*T{
		{Name: "root", Deps: []Ref{D("sib")}, Cmds: []C{{For: &vlab.For{List: []string{"a", "b"}}, Exit: 3, IgnoreError: true}, P()}},
		sib,
	}}
	m["fail-in-loop"] = &Prog{Tasks: []*T{
		{Name: "root", Deps: []Ref{D("sib")}, Cmds: []C{{For: &vlab.For{List: []string{"a", "b"}}, Exit: 3}, P()}},
		sib,
	}}
	// the failing command sits in a dependency of a task that is reached through a task call
	m["fail-in-dep-of-called-task"] = &Prog{Tasks: []*T{
		{Name: "root", Deps: []Ref{D("sib")}, Cmds: []C{P(), Call("mid"), P()}},
		{Name: "mid", Deps: []Ref{D("leaf")}, Cmds: []C{P()}},
		{Name: "leaf", Cmds: []C{P(), Fx(5), P()}},
		sib,
	}}
	m["fail-in-dep-of-ignoring-task"] = &Prog{Tasks: []*T{
		{Name: "root", Deps: []Ref{D("sib")}, Cmds: []C{P(), Call("a"), P()}},
		{Name: "a", IgnoreError: true, Deps: []Ref{D("b")}, Cmds: []C{P()}},
		{Name: "b", Cmds: []C{F()}},
		sib,
	}}
	return m
}

func c03Units(tier string) []*Unit {
	var us []*Unit
	progs := c03Progs()
	for _, name := range sortedProgNames(progs) {
		pg := progs[name]
		for _, xflag := range []bool{false, true} {
			if xflag && tier != "thorough" && name != "fail-direct" && name != "fail-in-dep" && name != "fail-in-nested-call" && name != "fail-in-dep-of-called-task" {
				continue
			}
			concs := []int{0}
			if tier == "thorough" {
				concs = []int{0, 1, 2}
			} else if !xflag && (name == "fail-in-nested-call" || name == "fail-in-dep") {
				concs = []int{0, 1} // a failure below a task call / a dependency under a concurrency limit
			}
			for _, conc := range concs {
				bound, shards := boundFor(tier, len(pg.Tasks), conc)
				if bound < 0 {
					continue
				}
				if xflag && tier != "thorough" {
					bound = 1
				}
				sc := scen(fmt.Sprintf("%s/c%s/x=%v", name, concName(conc), xflag), pg, vlab.Options{Concurrency: conc, ExitCodeFlag: xflag}, "root")
				us = append(us, &Unit{Name: sc.Name, Sc: sc, Bound: bound, Prune: true, Check: both(c03Check(pg, xflag), c01Check(pg)), Weight: len(pg.Tasks), Shards: shards})
			}
		}
	}
	// --parallel with two top-level tasks that both fail by themselves
	for _, xflag := range []bool{false, true} {
		xflag := xflag
		pg := &Prog{Tasks: []*T{
			{Name: "r1", Cmds: []C{P(), {Exit: 3}, P()}},
			{Name: "r2", Cmds: []C{P(), {Exit: 4}, P()}},
		}}
		sc := scen(fmt.Sprintf("parallel-two-failing-roots/cinf/x=%v", xflag), pg, vlab.Options{Parallel: true, ExitCodeFlag: xflag}, "r1", "r2")
		us = append(us, &Unit{Name: sc.Name, Sc: sc, Bound: 2, Prune: true, Weight: 2, Check: func(x *vlab.Exec) []vlab.Violation {
			out := generic("C03", x)
			if x.Res.Deadlock || x.Res.Horizon || x.Res.Panic != "" {
				return out
			}
			ev := vlab.ParseTrace(x.Trace)
			for _, e := range ev {
				if j, _ := e.CmdIndex(); e.K == 'S' && j == 2 {
					out = append(out, vlab.V("C03", "later_command_started", "same_task", fmt.Sprintf("%s entry 2 started after entry 1 had failed", e.Inst())))
				}
			}
			if x.Code == 0 {
				out = append(out, vlab.V("C03", "status_zero_after_failure", "", "both tasks fail but the invocation ended with status 0"))
			} else if v := severalFailuresStatus(pg, ev, x, xflag); v != nil && multiFail(pg, ev) {
				out = append(out, *v)
			} else if !multiFail(pg, ev) {
				want := 201
				if xflag {
					want = 0
					for _, e := range ev {
						if e.K == 'F' && isFailure(pg, e) {
							j, _ := e.CmdIndex()
							want = pg.ExitOf(e.Inst(), j)
						}
					}
				}
				if x.Code != want {
					out = append(out, vlab.V("C03", "status_class", fmt.Sprintf("got%d:want%s:parallel_roots", x.Code, wantStr(want, xflag)), fmt.Sprintf("status %d (err=%q), expected %d", x.Code, x.ErrStr, want)))
				}
			}
			return out
		}})
	}
	// one failing run: once task reached both as a task named on the command line and through a
	// task call: whichever of the two calls really executes it, the invocation ends with the
	// task-run class (or the command's own code with --exit-code)
	for _, xflag := range []bool{false, true} {
		xflag := xflag
		pg := &Prog{Tasks: []*T{
			{Name: "a", Run: "once", Label: "the-a", Cmds: []C{P(), {Exit: 7}, P()}},
			{Name: "b", IgnoreError: true, Cmds: []C{CallS("a", "="), P()}},
			{Name: "c", Cmds: []C{CallS("a", "="), P()}},
		}}
		for _, v := range []struct {
			name     string
			parallel bool
			roots    []string
		}{
			{"ignoring-caller-then-named", false, []string{"b", "a"}},
			{"named-and-caller-parallel", true, []string{"a", "c"}},
			{"caller-and-named-parallel", true, []string{"c", "a"}},
		} {
			sc := scen(fmt.Sprintf("shared-once-named-and-called/%s/x=%v", v.name, xflag), pg, vlab.Options{Parallel: v.parallel, ExitCodeFlag: xflag}, v.roots...)
			for i := range sc.Calls {
				sc.Calls[i].Vars = append(sc.Calls[i].Vars, [2]string{"VP", "="})
			}
			us = append(us, &Unit{Name: sc.Name, Sc: sc, Bound: 2, Prune: true, Weight: 2, Check: func(x *vlab.Exec) []vlab.Violation {
				out := generic("C03", x)
				if x.Res.Deadlock || x.Res.Horizon || x.Res.Panic != "" {
					return out
				}
				want := 201
				if xflag {
					want = 7
				}
				if x.Code != want {
					out = append(out, vlab.V("C03", "status_class", fmt.Sprintf("got%d:want%s:shared_once_named_and_called", x.Code, wantStr(want, xflag)), fmt.Sprintf("status %d (err=%q), expected %d", x.Code, x.ErrStr, want)))
				}
				return out
			}})
		}
	}
	us = append(us, c03CLIUnits(tier)...)
	return us
}

func wantStr(want int, own bool) string {
	if own {
		return "_own_code"
	}
	return fmt.Sprint(want)
}
