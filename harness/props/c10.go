package props

import (
	"fmt"
	"os"
	"path/filepath"
	"strings"
	"time"

	"github.com/go-task/task/v3/zverif/vlab"
)

func init() { registry["C10"] = c10Units }

// definition sites of one variable V, from the lowest to the highest documented priority
var c10Sites = []string{"osenv", "global", "cli", "incvars", "incfile", "call", "task"}

func c10Tier(site string) int {
	switch site {
	case "osenv":
		return 1
	case "global", "cli":
		return 2
	case "incvars":
		return 3
	case "incfile":
		return 4
	case "call":
		return 5
	case "task":
		return 6
	}
	return 0
}

// value written at a site; kind applies to the winning (highest) site only
func c10Value(site, kind string, winner bool) (yaml string, expect string) {
	if !winner || kind == "literal" {
		return "'" + site + "'", site
	}
	switch kind {
	case "template":
		return "'" + site + "-{{.LOW}}'", site + "-low"
	case "sh":
		return "{sh: 'echo " + site + "-sh'}", site + "-sh"
	case "ref":
		return "{ref: .OTHER}", "other"
	}
	return "'" + site + "'", site
}

type c10Case struct {
	loc   string // root | included | nested
	mask  int
	kind  string
	files map[string]string
	args  []string
	env   []string
	want  []string // acceptable values
	label string
}

func c10Build(loc string, mask int, kind string) *c10Case {
	has := func(s string) bool {
		for i, x := range c10Sites {
			if x == s {
				return mask&(1<<i) != 0
			}
		}
		return false
	}
	if loc == "root" && (has("incvars") || has("incfile")) {
		return nil
	}
	// winner tier
	top := 0
	for _, s := range c10Sites {
		if has(s) && c10Tier(s) > top {
			top = c10Tier(s)
		}
	}
	var want []string
	val := map[string]string{}
	for _, s := range c10Sites {
		if !has(s) {
			continue
		}
		k := kind
		if s == "osenv" || s == "cli" {
			k = "literal" // environment and command line carry plain strings
		}
		y, e := c10Value(s, k, c10Tier(s) == top)
		val[s] = y
		if c10Tier(s) == top {
			want = append(want, e)
		}
	}
	if top == 0 {
		want = []string{"", "<no value>"}
	}
	c := &c10Case{loc: loc, mask: mask, kind: kind, want: want, files: map[string]string{}}
	probe := "      - printf '%s\\n' 'V={{.V}}'\n"
	taskDef := func(indent string) string {
		s := indent + "t:\n"
		if has("task") {
			s += indent + "  vars:\n" + indent + "    V: " + val["task"] + "\n"
		}
		return s + indent + "  cmds:\n" + probe
	}
	callVars := ""
	if has("call") {
		callVars = "\n        vars: {V: " + val["call"] + "}"
	}
	globals := "vars:\n  LOW: 'low'\n  OTHER: 'other'\n"
	if has("global") {
		globals += "  V: " + val["global"] + "\n"
	}
	switch loc {
	case "root":
		c.files["Taskfile.yml"] = "version: '3'\n" + globals + "tasks:\n  caller:\n    cmds:\n      - task: t" + callVars + "\n" + taskDef("  ")
	case "included", "nested", "nested-inner-vars":
		incStmt := "includes:\n  inc:\n    taskfile: ./inc.yml\n"
		if has("incvars") && loc != "nested-inner-vars" {
			incStmt += "    vars:\n      V: " + val["incvars"] + "\n"
		}
		target := "inc:t"
		incfile := "version: '3'\n"
		if loc == "nested" {
			target = "inc:deep:t"
			incfile += "includes:\n  deep: ./deep.yml\n"
		}
		if loc == "nested-inner-vars" {
			// the outer include in the short form, the include statement's vars on the inner one
			incStmt = "includes:\n  inc: ./inc.yml\n"
			target = "inc:deep:t"
			incfile += "includes:\n  deep:\n    taskfile: ./deep.yml\n"
			if has("incvars") {
				incfile += "    vars:\n      V: " + val["incvars"] + "\n"
			}
		}
		incGlobals := ""
		if has("incfile") {
			incGlobals = "vars:\n  V: " + val["incfile"] + "\n"
		}
		if loc == "included" {
			incfile += incGlobals + "tasks:\n" + taskDef("  ")
		} else {
			incfile += "tasks:\n  mid:\n    cmds: ['true']\n"
			c.files["deep.yml"] = "version: '3'\n" + incGlobals + "tasks:\n" + taskDef("  ")
		}
		c.files["inc.yml"] = incfile
		c.files["Taskfile.yml"] = "version: '3'\n" + incStmt + globals + "tasks:\n  caller:\n    cmds:\n      - task: '" + target + "'" + callVars + "\n"
	}
	c.args = []string{"caller"}
	if has("cli") {
		c.args = append(c.args, "V=cli")
	}
	if has("osenv") {
		c.env = []string{"V=osenv"}
	}
	var present []string
	for _, s := range c10Sites {
		if has(s) {
			present = append(present, s)
		}
	}
	c.label = fmt.Sprintf("%s/%s/{%s}", loc, kind, strings.Join(present, ","))
	return c
}

func c10VarUnit(loc, kind string) *Unit {
	name := fmt.Sprintf("vars/%s/%s", loc, kind)
	return &Unit{Name: name, Weight: 4, Custom: func(u *Unit, dir string, deadline time.Time) *vlab.UnitResult {
		res := &vlab.UnitResult{SigCounts: map[string]int{}, Extra: map[string]any{}}
		n := 0
		outcomes := map[string]bool{}
		var samples []any
		for mask := 0; mask < 1<<len(c10Sites); mask++ {
			c := c10Build(loc, mask, kind)
			if c == nil {
				continue
			}
			os.RemoveAll(dir)
			os.MkdirAll(dir, 0o755)
			for rel, content := range c.files {
				os.WriteFile(filepath.Join(dir, rel), []byte(content), 0o644)
			}
			so, se, rc := RunCLI(dir, c.env, "", append([]string{"--silent"}, c.args...)...)
			n++
			got := strings.TrimPrefix(strings.TrimSpace(so), "V=")
			ok := rc == 0
			if ok {
				ok = false
				for _, w := range c.want {
					if got == w {
						ok = true
					}
				}
			}
			outcomes[fmt.Sprintf("%v/%s", ok, got)] = true
			if len(samples) < 2 && mask == 0b1010101 {
				samples = append(samples, map[string]any{"case": c.label, "observed": got, "acceptable": c.want})
			}
			if !ok {
				// which site won instead
				winner := strings.SplitN(got, "-", 2)[0]
				v := vlab.V("C10", "wrong_precedence", fmt.Sprintf("%s:%s:got=%s:want=%s", loc, kind, winner, strings.SplitN(c.want[0], "-", 2)[0]),
					fmt.Sprintf("%s: V is %q, the highest-priority definition gives %q (status %d, stderr %q)", c.label, got, c.want, rc, firstN(se, 160)))
				v.Scenario = name
				v.Input = map[string]any{"files": c.files, "args": c.args, "env": c.env}
				res.SigCounts[v.Sig]++
				if res.SigCounts[v.Sig] == 1 {
					res.Violations = append(res.Violations, v)
				}
			}
		}
		res.Extra["samples"] = samples
		res.Stats = vlab.Stats{Scenario: name, Execs: n, States: n, Transitions: n, Outcomes: len(outcomes), Exhaustive: true}
		return res
	}}
}

// environment variables seen by commands
var c10EnvSites = []string{"process", "globalenv", "globaldotenv", "taskdotenv", "taskenv"}

func c10EnvUnit(experiment bool, emptyProcess bool) *Unit {
	name := fmt.Sprintf("env/experiment_env_precedence=%v/process_value_empty=%v", experiment, emptyProcess)
	return &Unit{Name: name, Weight: 3, Custom: func(u *Unit, dir string, deadline time.Time) *vlab.UnitResult {
		res := &vlab.UnitResult{SigCounts: map[string]int{}, Extra: map[string]any{}}
		n := 0
		outcomes := map[string]bool{}
		var samples []any
		for mask := 0; mask < 1<<len(c10EnvSites); mask++ {
			has := func(s string) bool {
				for i, x := range c10EnvSites {
					if x == s {
						return mask&(1<<i) != 0
					}
				}
				return false
			}
			files := map[string]string{}
			tfile := "version: '3'\n"
			if has("globaldotenv") {
				tfile += "dotenv: ['.genv1', '.genv2']\n"
				files[".genv1"] = "E=globaldotenv\n"
				files[".genv2"] = "E=globaldotenv2\nF=only2\n"
			}
			if has("globalenv") {
				tfile += "env:\n  E: globalenv\n"
			}
			tfile += "tasks:\n  t:\n"
			if has("taskdotenv") {
				tfile += "    dotenv: ['.tenv1', '.tenv2']\n"
				files[".tenv1"] = "E=taskdotenv\n"
				files[".tenv2"] = "E=taskdotenv2\n"
			}
			if has("taskenv") {
				tfile += "    env:\n      E: taskenv\n"
			}
			tfile += "    cmds:\n      - printf '%s\\n' \"E=$E\"\n"
			files["Taskfile.yml"] = tfile
			os.RemoveAll(dir)
			os.MkdirAll(dir, 0o755)
			for rel, content := range files {
				os.WriteFile(filepath.Join(dir, rel), []byte(content), 0o644)
			}
			env := []string{}
			procVal := "process"
			if emptyProcess {
				procVal = ""
			}
			if has("process") {
				env = append(env, "E="+procVal)
			}
			if experiment {
				env = append(env, "TASK_X_ENV_PRECEDENCE=1")
			}
			so, se, rc := RunCLI(dir, env, "", "--silent", "t")
			n++
			got := strings.TrimPrefix(strings.TrimSpace(so), "E=")
			// documented order
			order := [][]string{{"taskenv"}, {"taskdotenv", "taskdotenv2"}, {"globalenv", "globaldotenv", "globaldotenv2"}}
			var want []string
			if has("process") && !experiment {
				want = []string{procVal}
			} else {
				for _, tier := range order {
					for _, v := range tier {
						site := strings.TrimRight(v, "2")
						if has(site) {
							want = append(want, v)
						}
					}
					if len(want) > 0 {
						break
					}
				}
				if len(want) == 0 {
					if has("process") {
						want = []string{procVal}
					} else {
						want = []string{""}
					}
				}
			}
			ok := rc == 0
			if ok {
				ok = false
				for _, w := range want {
					if got == w {
						ok = true
					}
				}
			}
			outcomes[fmt.Sprintf("%v/%s", ok, got)] = true
			if len(samples) < 2 && mask == 0b10101 {
				samples = append(samples, map[string]any{"sites": mask, "observed": got, "acceptable": want})
			}
			if !ok {
				v := vlab.V("C10", "wrong_env_precedence", fmt.Sprintf("experiment=%v:empty_process=%v:got=%s:want=%s", experiment, emptyProcess, strings.TrimRight(got, "2"), strings.TrimRight(want[0], "2")),
					fmt.Sprintf("sites mask %05b (process,globalenv,globaldotenv,taskdotenv,taskenv): $E is %q, expected one of %q (status %d, stderr %q)", mask, got, want, rc, firstN(se, 160)))
				v.Scenario = name
				v.Input = map[string]any{"files": files, "env": env}
				res.SigCounts[v.Sig]++
				if res.SigCounts[v.Sig] == 1 {
					res.Violations = append(res.Violations, v)
				}
			}
		}
		res.Extra["samples"] = samples
		res.Stats = vlab.Stats{Scenario: name, Execs: n, States: n, Transitions: n, Outcomes: len(outcomes), Exhaustive: true}
		return res
	}}
}

// special variables are available unless overridden
func c10SpecialUnit() *Unit {
	name := "special-vars"
	return &Unit{Name: name, Weight: 1, Custom: func(u *Unit, dir string, deadline time.Time) *vlab.UnitResult {
		res := &vlab.UnitResult{SigCounts: map[string]int{}, Extra: map[string]any{}}
		n := 0
		var samples []any
		specials := []string{"TASK", "ROOT_DIR", "TASKFILE_DIR", "USER_WORKING_DIR", "TASK_VERSION", "ROOT_TASKFILE", "TASKFILE", "TASK_DIR", "ALIAS"}
		for _, sp := range specials {
			for _, override := range []string{"", "task", "global"} {
				tfile := "version: '3'\n"
				if override == "global" {
					tfile += "vars:\n  " + sp + ": 'mine'\n"
				}
				tfile += "tasks:\n  t:\n"
				if override == "task" {
					tfile += "    vars:\n      " + sp + ": 'mine'\n"
				}
				tfile += "    cmds:\n      - printf '%s\\n' 'S={{." + sp + "}}'\n"
				os.RemoveAll(dir)
				os.MkdirAll(dir, 0o755)
				os.WriteFile(filepath.Join(dir, "Taskfile.yml"), []byte(tfile), 0o644)
				so, se, rc := RunCLI(dir, nil, "", "--silent", "t")
				n++
				got := strings.TrimPrefix(strings.TrimSpace(so), "S=")
				bad := ""
				switch {
				case rc != 0:
					bad = fmt.Sprintf("status %d %s", rc, firstN(se, 100))
				case override == "" && (got == "" || got == "<no value>"):
					bad = "special variable is empty"
				case override != "" && got != "mine":
					bad = fmt.Sprintf("overridden at %s level but renders %q", override, got)
				}
				if len(samples) < 2 {
					samples = append(samples, map[string]any{"var": sp, "override": override, "value": got})
				}
				if bad != "" {
					v := vlab.V("C10", "special_var", sp+":"+override, fmt.Sprintf("special variable %s (override=%q): %s", sp, override, bad))
					v.Scenario = name
					v.Input = map[string]any{"taskfile": tfile}
					res.SigCounts[v.Sig]++
					if res.SigCounts[v.Sig] == 1 {
						res.Violations = append(res.Violations, v)
					}
				}
			}
		}
		res.Extra["samples"] = samples
		res.Stats = vlab.Stats{Scenario: name, Execs: n, States: n, Transitions: n, Outcomes: 3, Exhaustive: true}
		return res
	}}
}

func c10Units(tier string) []*Unit {
	var us []*Unit
	for _, loc := range []string{"root", "included", "nested", "nested-inner-vars"} {
		for _, kind := range []string{"literal", "template", "sh", "ref"} {
			us = append(us, c10VarUnit(loc, kind))
		}
	}
	us = append(us, c10EnvUnit(false, false), c10EnvUnit(true, false), c10EnvUnit(false, true), c10EnvUnit(true, true), c10SpecialUnit(), c10TwiceUnit(), c10MiscUnit(), c10ShEnvUnit())
	return us
}

// the same Taskfile (which itself includes another one) included twice with different
// include vars: every copy sees its own include's vars, at every depth
func c10TwiceUnit() *Unit {
	name := "vars/included-twice-with-different-vars"
	return &Unit{Name: name, Weight: 1, Custom: func(u *Unit, dir string, deadline time.Time) *vlab.UnitResult {
		res := &vlab.UnitResult{SigCounts: map[string]int{}, Extra: map[string]any{}}
		n := 0
		var samples []any
		for _, form := range []string{"plain", "advanced-leaf", "leaf-has-include-vars"} {
			leafInc := "  leaf: ./leaf.yml\n"
			if form != "plain" {
				leafInc = "  leaf:\n    taskfile: ./leaf.yml\n"
				if form == "leaf-has-include-vars" {
					leafInc += "    vars: {L: fromleafinc}\n"
				}
			}
			files := map[string]string{
				"Taskfile.yml": "version: '3'\nincludes:\n  one:\n    taskfile: ./mid.yml\n    vars: {WHO: one}\n  two:\n    taskfile: ./mid.yml\n    vars: {WHO: two}\ntasks:\n  default:\n    cmds: ['true']\n",
				"mid.yml":      "version: '3'\nincludes:\n" + leafInc + "tasks:\n  show:\n    cmds:\n      - printf '%s\\n' 'WHO={{.WHO}}'\n",
				"leaf.yml":     "version: '3'\ntasks:\n  show:\n    cmds:\n      - printf '%s\\n' 'WHO={{.WHO}}'\n",
			}
			os.RemoveAll(dir)
			os.MkdirAll(dir, 0o755)
			for rel, c := range files {
				os.WriteFile(filepath.Join(dir, rel), []byte(c), 0o644)
			}
			for _, tc := range [][2]string{{"one:show", "one"}, {"two:show", "two"}, {"one:leaf:show", "one"}, {"two:leaf:show", "two"}} {
				so, se, rc := RunCLI(dir, nil, "", "--silent", tc[0])
				n++
				got := strings.TrimPrefix(strings.TrimSpace(so), "WHO=")
				if len(samples) < 2 {
					samples = append(samples, map[string]any{"task": tc[0], "WHO": got})
				}
				if rc != 0 || got != tc[1] {
					v := vlab.V("C10", "include_vars_of_other_copy", form+":"+strings.Join(strings.Split(tc[0], ":")[1:], ":"),
						fmt.Sprintf("%s (%s): WHO is %q, its include statement says %q (status %d %s)", tc[0], form, got, tc[1], rc, firstN(se, 100)))
					v.Scenario = name
					v.Input = map[string]any{"files": files, "task": tc[0]}
					res.SigCounts[v.Sig]++
					if res.SigCounts[v.Sig] == 1 {
						res.Violations = append(res.Violations, v)
					}
				}
			}
		}
		res.Extra["samples"] = samples
		res.Stats = vlab.Stats{Scenario: name, Execs: n, States: n, Transitions: n, Outcomes: 2, Exhaustive: true}
		return res
	}}
}

// further places where a name is resolved: templates inside an include statement (global vars
// rank above the OS environment there as well); a task-level dotenv file that another task of
// the same invocation rewrites is read again
func c10MiscUnit() *Unit {
	name := "include-statement-templates-and-dotenv-reread"
	return &Unit{Name: name, Weight: 1, Custom: func(u *Unit, dir string, deadline time.Time) *vlab.UnitResult {
		res := &vlab.UnitResult{SigCounts: map[string]int{}, Extra: map[string]any{}}
		n := 0
		var samples []any
		add := func(v vlab.Violation, files map[string]string, args []string) {
			v.Scenario = name
			v.Input = map[string]any{"files": files, "args": args}
			res.SigCounts[v.Sig]++
			if res.SigCounts[v.Sig] == 1 {
				res.Violations = append(res.Violations, v)
			}
		}
		write := func(files map[string]string) {
			os.RemoveAll(dir)
			os.MkdirAll(dir, 0o755)
			for rel, c := range files {
				p := filepath.Join(dir, rel)
				os.MkdirAll(filepath.Dir(p), 0o755)
				os.WriteFile(p, []byte(c), 0o644)
			}
		}
		// 1. include statement templates: vars / dir / taskfile
		for _, where := range []string{"vars", "dir", "taskfile"} {
			for mask := 1; mask < 4; mask++ { // bit0: global var, bit1: OS env
				files := map[string]string{
					"inc-global.yml": "version: '3'\ntasks:\n  show:\n    cmds:\n      - printf '%s\\n' \"G={{.GREETING}} F=global PWD=$(basename \"$PWD\")\"\n",
					"inc-osenv.yml":  "version: '3'\ntasks:\n  show:\n    cmds:\n      - printf '%s\\n' \"G={{.GREETING}} F=osenv PWD=$(basename \"$PWD\")\"\n",
					"global/.keep":   "", "osenv/.keep": "",
				}
				root := "version: '3'\n"
				if mask&1 != 0 {
					root += "vars:\n  WHO: global\n"
				}
				inc := "includes:\n  inc:\n"
				switch where {
				case "vars":
					inc += "    taskfile: ./inc-global.yml\n    vars:\n      GREETING: 'hello {{.WHO}}'\n"
				case "dir":
					inc += "    taskfile: ./inc-global.yml\n    dir: './{{.WHO}}'\n"
				case "taskfile":
					inc += "    taskfile: './inc-{{.WHO}}.yml'\n"
				}
				root += inc + "tasks:\n  t:\n    cmds: ['true']\n"
				files["Taskfile.yml"] = root
				write(files)
				var env []string
				if mask&2 != 0 {
					env = []string{"WHO=osenv"}
				}
				want := "osenv"
				if mask&1 != 0 {
					want = "global"
				}
				args := []string{"--silent", "inc:show"}
				so, se, rc := RunCLI(dir, env, "", args...)
				n++
				got := strings.TrimSpace(so)
				ok := rc == 0
				switch where {
				case "vars":
					ok = ok && strings.Contains(got, "G=hello "+want+" ")
				case "dir":
					ok = ok && strings.HasSuffix(got, "PWD="+want)
				case "taskfile":
					ok = ok && strings.Contains(got, "F="+want+" ")
				}
				if len(samples) < 2 {
					samples = append(samples, map[string]any{"where": where, "sites_mask": mask, "output": got})
				}
				if !ok {
					add(vlab.V("C10", "wrong_precedence", fmt.Sprintf("include_statement_%s:want=%s", where, want),
						fmt.Sprintf("template in the include statement's %s with WHO defined at sites mask %02b (global var, OS env): got %q, the highest-priority definition is %q (status %d %s)", where, mask, got, want, rc, firstN(se, 120))), files, args)
				}
			}
		}
		// 2. a task dotenv file rewritten by another task of the same invocation
		files := map[string]string{
			".dyn.env": "K=old\n",
			"Taskfile.yml": "version: '3'\nenv:\n  K: globalenv\n  N: globalenv\ntasks:\n  use:\n    dotenv: ['.dyn.env']\n    cmds:\n      - printf '%s\\n' \"K=$K N=$N\"\n" +
				"  gen:\n    cmds:\n      - printf 'K=new\\nN=added\\n' > .dyn.env\n",
		}
		write(files)
		args := []string{"--silent", "use", "gen", "use"}
		so, se, rc := RunCLI(dir, nil, "", args...)
		n++
		lines := strings.Split(strings.TrimSpace(so), "\n")
		if rc != 0 || len(lines) != 2 || lines[0] != "K=old N=globalenv" || lines[1] != "K=new N=added" {
			add(vlab.V("C10", "wrong_env_precedence", "task_dotenv_rewritten_within_run", fmt.Sprintf("task use gen use: the commands saw %q, expected [K=old N=globalenv, K=new N=added] (task dotenv ranks above global env; the file changed in between) (status %d %s)", lines, rc, firstN(se, 120))), files, args)
		}
		res.Extra["samples"] = samples
		res.Stats = vlab.Stats{Scenario: name, Execs: n, States: n, Transitions: n, Outcomes: 2, Exhaustive: true}
		return res
	}}
}

// The environment of a dynamic (sh:) variable's command: $NAME there is the definition of NAME
// that ranks highest among those evaluated so far, exactly like {{.NAME}} - whether or not
// another dynamic variable was evaluated before it. Also: the position of a global variable
// that an included Taskfile redefines (a later global that refers to it still sees a value).
func c10ShEnvUnit() *Unit {
	name := "sh-variable-environment-and-global-order"
	return &Unit{Name: name, Weight: 1, Custom: func(u *Unit, dir string, deadline time.Time) *vlab.UnitResult {
		res := &vlab.UnitResult{SigCounts: map[string]int{}, Extra: map[string]any{}}
		n := 0
		var samples []any
		run := func(files map[string]string, args []string, want, clause, tag, what string) {
			os.RemoveAll(dir)
			os.MkdirAll(dir, 0o755)
			for rel, c := range files {
				p := filepath.Join(dir, rel)
				os.MkdirAll(filepath.Dir(p), 0o755)
				os.WriteFile(p, []byte(c), 0o644)
			}
			so, se, rc := RunCLI(dir, nil, "", args...)
			n++
			got := strings.TrimSpace(so)
			if len(samples) < 3 {
				samples = append(samples, map[string]any{"case": tag, "output": got})
			}
			if rc != 0 || got != want {
				v := vlab.V("C10", clause, tag, fmt.Sprintf("%s: got %q (status %d %s), expected %q", what, got, rc, firstN(se, 120), want))
				v.Scenario = name
				v.Input = map[string]any{"files": files, "args": args}
				res.SigCounts[v.Sig]++
				if res.SigCounts[v.Sig] == 1 {
					res.Violations = append(res.Violations, v)
				}
			}
		}
		for mask := 0; mask < 8; mask++ {
			earlierSh, taskDef, globalSh := mask&1 != 0, mask&2 != 0, mask&4 != 0
			// V1: NAME defined globally and (optionally) in the task's vars, read by a later sh var of the task
			root := "version: '3'\nvars:\n"
			if globalSh {
				root += "  GW: {sh: echo gw}\n"
			}
			root += "  NAME: global\ntasks:\n  t:\n    vars:\n"
			if earlierSh {
				root += "      W: {sh: echo w}\n"
			}
			want := "global"
			if taskDef {
				root += "      NAME: task\n"
				want = "task"
			}
			root += "      SEEN: {sh: 'echo $NAME'}\n    cmds:\n      - echo 'SEEN={{.SEEN}} TPL={{.NAME}}'\n"
			root += "  caller:\n    cmds:\n      - task: callee\n        vars:\n"
			if earlierSh {
				root += "          W: {sh: echo w}\n"
			}
			root += "          NAME: call\n          SEEN: {sh: 'echo $NAME'}\n  callee:\n    cmds:\n      - echo 'SEEN={{.SEEN}} TPL={{.NAME}}'\n"
			files := map[string]string{"Taskfile.yml": root}
			tag := fmt.Sprintf("earlier_sh=%v:task_def=%v:global_sh=%v", earlierSh, taskDef, globalSh)
			run(files, []string{"--silent", "t"}, "SEEN="+want+" TPL="+want, "wrong_precedence", "sh_env:task_vars:"+tag, "task vars block with a dynamic variable reading $NAME")
			if !taskDef {
				run(files, []string{"--silent", "caller"}, "SEEN=call TPL=call", "wrong_precedence", "sh_env:call_vars:"+tag, "call vars with a dynamic variable reading $NAME")
			}
		}
		// global env entries whose template depends on the task: resolved for each task that is compiled
		{
			files := map[string]string{"Taskfile.yml": "version: '3'\nenv:\n  WHOENV: 'env-{{.TASK}}-{{.TV}}'\ntasks:\n  a:\n    vars: {TV: va}\n    cmds:\n      - echo \"a $WHOENV\"\n  b:\n    vars: {TV: vb}\n    cmds:\n      - echo \"b $WHOENV\"\n  both:\n    cmds:\n      - task: a\n      - task: b\n"}
			run(files, []string{"--silent", "a", "b"}, "a env-a-va\nb env-b-vb", "wrong_env_precedence", "global_env_template_per_task:two_cli_tasks", "global env entry templated with the task's own variables, two tasks on one command line")
			run(files, []string{"--silent", "both"}, "a env-a-va\nb env-b-vb", "wrong_env_precedence", "global_env_template_per_task:two_called_tasks", "global env entry templated with the task's own variables, two tasks called from one task")
		}
		// a dynamic (sh) global env entry and a variable of the same name are two things: the command's
		// environment gets the env entry, the template gets the variable
		for mask := 0; mask < 4; mask++ {
			taskVar, callVar := mask&1 != 0, mask&2 != 0
			tf := "version: '3'\nenv:\n  NAME: {sh: 'echo from-global-env-sh'}\ntasks:\n  t:\n"
			if taskVar {
				tf += "    vars: {NAME: from-task-var}\n"
			}
			tf += "    cmds:\n      - echo \"ENV=$NAME\"\n  caller:\n    cmds:\n      - task: t\n"
			if callVar {
				tf += "        vars: {NAME: from-call-var}\n"
			}
			files := map[string]string{"Taskfile.yml": tf}
			run(files, []string{"--silent", "caller"}, "ENV=from-global-env-sh", "wrong_env_precedence", fmt.Sprintf("global_sh_env_vs_variable_of_same_name:task_var=%v:call_var=%v", taskVar, callVar), "dynamic global env entry NAME next to variables called NAME")
		}
		// a global that an included Taskfile redefines keeps its place in the evaluation order
		for _, form := range []string{"short", "long", "nested"} {
			for _, kind := range []string{"template", "sh"} {
				dep := "'{{.NAME}}-dep'"
				if kind == "sh" {
					dep = "{sh: 'echo $NAME-dep'}"
				}
				inc := "  inc: ./inc.yml\n"
				if form != "short" {
					inc = "  inc:\n    taskfile: ./inc.yml\n"
				}
				files := map[string]string{
					"Taskfile.yml": "version: '3'\nincludes:\n" + inc + "vars:\n  NAME: root\n  DEP: " + dep + "\ntasks:\n  show:\n    cmds:\n      - echo 'DEP={{.DEP}}'\n",
					"inc.yml":      "version: '3'\nvars:\n  NAME: inc\ntasks:\n  show:\n    cmds:\n      - echo 'DEP={{.DEP}}'\n",
				}
				if form == "nested" {
					files["inc.yml"] = "version: '3'\nincludes:\n  deep: ./deep.yml\ntasks:\n  show:\n    cmds:\n      - echo 'DEP={{.DEP}}'\n"
					files["deep.yml"] = "version: '3'\nvars:\n  NAME: inc\ntasks:\n  x:\n    cmds: ['true']\n"
				}
				for _, req := range []string{"show", "inc:show"} {
					os.RemoveAll(dir)
					os.MkdirAll(dir, 0o755)
					for rel, c := range files {
						os.WriteFile(filepath.Join(dir, rel), []byte(c), 0o644)
					}
					so, se, rc := RunCLI(dir, nil, "", "--silent", req)
					n++
					got := strings.TrimSpace(so)
					// whichever definition of NAME wins, DEP is computed from a defined NAME
					if rc != 0 || (got != "DEP=root-dep" && got != "DEP=inc-dep") {
						v := vlab.V("C10", "global_evaluated_before_the_variable_it_refers_to", form+":"+kind, fmt.Sprintf("global DEP refers to the global NAME declared before it (redefined by the included Taskfile): task %s printed %q (status %d %s)", req, got, rc, firstN(se, 100)))
						v.Scenario = name
						v.Input = map[string]any{"files": files, "args": []string{req}}
						res.SigCounts[v.Sig]++
						if res.SigCounts[v.Sig] == 1 {
							res.Violations = append(res.Violations, v)
						}
					}
				}
			}
		}
		res.Extra["samples"] = samples
		res.Stats = vlab.Stats{Scenario: name, Execs: n, States: n, Transitions: n, Outcomes: 3, Exhaustive: true}
		return res
	}}
}
