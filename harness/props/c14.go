package props

import (
	"fmt"
	"os"
	"path/filepath"
	"sort"
	"strings"
	"time"

	"github.com/go-task/task/v3/zverif/vlab"
)

func init() { registry["C14"] = c14Units }

// c14Check, per execution instance of a task that has defer entries:
//
//	E1 every defer entry runs at most once; one that was certainly reached runs exactly once
//	E2 a defer starts only after every regular entry of the instance that ran has finished
//	E3 defers run in reverse registration order, one after the other
//	E4 the caller's next entry (and anything it calls) starts only after the callee's defers finished
//	E5 a defer placed after the entry at which the task stopped never runs
//	E6 {{.EXIT_CODE}} is the failing command's code (empty when the task did not fail)
//	E7 a failing deferred command does not change the task's outcome (status 0 when nothing else failed)
func c14Check(pg *Prog, expectCode int) func(x *vlab.Exec) []vlab.Violation {
	return func(x *vlab.Exec) []vlab.Violation {
		out := generic("C14", x)
		if x.Res.Deadlock {
			return append(out, vlab.V("C14", "deadlock", "", fmt.Sprint(x.Res.Blocked)))
		}
		ev := vlab.ParseTrace(x.Trace)
		ti := vlab.IndexTrace(ev)
		byInst, order := vlab.Instances(ev)
		// subtreeLast[inst][j] = last position of any event in the subtree of call entry j
		lastOfPrefix := func(vpPrefix string) int {
			last := -1
			for _, e := range ev {
				if e.Task != "" && strings.HasPrefix(e.VP, vpPrefix) {
					last = e.Pos
				}
			}
			return last
		}
		for _, in := range order {
			t := pg.Task(in.Task)
			if t == nil {
				continue
			}
			var defers []int
			for j, c := range t.Cmds {
				if c.Defer {
					defers = append(defers, j)
				}
			}
			if len(defers) == 0 {
				continue
			}
			// what ran
			stop := len(t.Cmds) // index of the entry at which the task stopped because of a failure
			failCode := 0
			lastRegular := -1 // position of the last event of any regular entry
			lastStartedIdx := -1
			for j, c := range t.Cmds {
				if c.Defer {
					continue
				}
				if c.Call != nil {
					ci := vlab.CalleeInst(in, fmt.Sprintf("c%d", j), *c.Call)
					if p := lastOfPrefix(ci.VP); p >= 0 && c.Call.VP == "" {
						if p > lastRegular {
							lastRegular = p
						}
						lastStartedIdx = j
						if st := pg.Completed(ti, ci, len(ev)+1, 0); st == vlab.StFailed && !t.IgnoreError && stop == len(t.Cmds) {
							stop = j
							failCode = firstFailCode(pg, ev, ci.VP)
						}
					}
					continue
				}
				for _, e := range byInst[in] {
					if jj, _ := e.CmdIndex(); jj == j {
						if e.Pos > lastRegular {
							lastRegular = e.Pos
						}
						lastStartedIdx = j
						if e.K == 'F' && pg.ExitOf(in, j) != 0 && !c.IgnoreError && !t.IgnoreError && stop == len(t.Cmds) {
							stop = j
							failCode = pg.ExitOf(in, j)
						}
					}
				}
			}
			type drun struct{ s, f, n int }
			runs := map[int]*drun{}
			for _, j := range defers {
				d := &drun{s: -1, f: -1}
				c := t.Cmds[j]
				if c.Call != nil {
					ci := vlab.CalleeInst(in, fmt.Sprintf("c%d", j), *c.Call)
					for _, e := range ev {
						if e.Task != "" && strings.HasPrefix(e.VP, ci.VP) {
							if d.s < 0 {
								d.s = e.Pos
							}
							d.f = e.Pos
						}
					}
					d.n = ti.Count('S', c.Call.Task, "0", ci.VP)
				} else {
					idx := fmt.Sprint(j)
					d.s = ti.First('S', in.Task, idx, in.VP)
					d.f = ti.First('F', in.Task, idx, in.VP)
					d.n = ti.Count('S', in.Task, idx, in.VP)
				}
				runs[j] = d
			}
			tag := func(j int) string {
				if t.Cmds[j].Call != nil {
					return "defer_task"
				}
				return "defer_cmd"
			}
			for _, j := range defers {
				d := runs[j]
				if d.n > 1 {
					out = append(out, vlab.V("C14", "defer_ran_twice", tag(j), fmt.Sprintf("%s defer entry %d ran %d times", in, j, d.n)))
				}
				certain := j < lastStartedIdx && j < stop // a later regular entry started, so this defer was passed
				if j > stop && d.n > 0 {
					out = append(out, vlab.V("C14", "unreached_defer_ran", tag(j), fmt.Sprintf("%s stopped at entry %d but defer entry %d (placed after it) ran", in, stop, j)))
				}
				if certain && d.n == 0 {
					out = append(out, vlab.V("C14", "defer_missing", tag(j), fmt.Sprintf("%s passed defer entry %d (a later entry started) but it never ran", in, j)))
				}
				if certain && d.n > 0 && d.f < 0 {
					out = append(out, vlab.V("C14", "defer_unfinished", tag(j), fmt.Sprintf("%s defer entry %d started but never finished", in, j)))
				}
				if d.n > 0 && d.s >= 0 && d.s < lastRegular {
					out = append(out, vlab.V("C14", "defer_before_last_command", tag(j), fmt.Sprintf("%s defer entry %d started at %d, before the instance's last regular event at %d", in, j, d.s, lastRegular)))
				}
				// E6
				if c := t.Cmds[j]; c.Call == nil && c.Extra == "{{.EXIT_CODE}}" && d.n > 0 {
					got := ""
					for _, e := range byInst[in] {
						if jj, _ := e.CmdIndex(); jj == j {
							got = e.Extra
						}
					}
					want := ""
					if failCode != 0 {
						want = fmt.Sprint(failCode)
					}
					if got != want && got != "<no value>" || (got == "<no value>" && want != "") {
						out = append(out, vlab.V("C14", "exit_code_var", "", fmt.Sprintf("%s defer entry %d saw EXIT_CODE=%q, expected %q", in, j, got, want)))
					}
				}
			}
			// E3 reverse order
			for a := 0; a < len(defers); a++ {
				for b := a + 1; b < len(defers); b++ {
					da, db := runs[defers[a]], runs[defers[b]]
					if da.n > 0 && db.n > 0 && !(db.f >= 0 && db.f < da.s) {
						out = append(out, vlab.V("C14", "defer_order", "", fmt.Sprintf("%s: defer entry %d (registered later) must finish before defer entry %d starts (got %d..%d vs %d..%d)", in, defers[b], defers[a], db.s, db.f, da.s, da.f)))
					}
				}
			}
			// E4: caller continues only after the defers finished
			if par, site, ok := vlab.ParentOf(in); ok {
				kind, sj, _ := vlab.SiteIndex(site)
				pt := pg.Task(par.Task)
				lastDefer := -1
				for _, d := range runs {
					if d.f > lastDefer {
						lastDefer = d.f
					}
					if d.s > lastDefer {
						lastDefer = d.s
					}
				}
				if kind == 'c' && pt != nil && lastDefer >= 0 {
					for _, e := range ev {
						if e.K != 'S' || e.Task == "" || e.Pos > lastDefer {
							continue
						}
						// an event of a LATER entry of the caller (or of something that entry called)
						c2 := e.Inst()
						jj, _ := e.CmdIndex()
						isLater := c2 == par && jj > sj && !pt.Cmds[jj].Defer
						for d := 0; d < 12 && !isLater; d++ {
							p2, s2, ok2 := vlab.ParentOf(c2)
							if !ok2 {
								break
							}
							if p2 == par {
								k2, j2, _ := vlab.SiteIndex(s2)
								isLater = k2 == 'c' && j2 > sj && !pt.Cmds[j2].Defer
								break
							}
							c2 = p2
						}
						if isLater && e.Pos > lastOfFirstEvent(byInst[in]) {
							out = append(out, vlab.V("C14", "caller_continued_before_defers", "", fmt.Sprintf("%s continued at position %d before the deferred commands of %s finished (last at %d)", par, e.Pos, in, lastDefer)))
							break
						}
					}
				}
			}
		}
		out = append(out, c14SharedCallee(pg, ev)...)
		// nothing of the invocation - a deferred command least of all - runs after Run has returned
		ret := -1
		for _, e := range ev {
			if e.K == 'R' {
				ret = e.Pos
			}
			if ret >= 0 && e.Task != "" && e.Pos > ret {
				clause, tag := "command_after_invocation_returned", ""
				if t := pg.Task(e.Task); t != nil {
					if j, _ := e.CmdIndex(); j >= 0 && j < len(t.Cmds) && t.Cmds[j].Defer {
						clause, tag = "caller_continued_before_defers", "invocation_returned"
					}
				}
				out = append(out, vlab.V("C14", clause, tag, fmt.Sprintf("%s entry %s ran at position %d, after Run had returned at %d", e.Inst(), e.Idx, e.Pos, ret)))
				break
			}
		}
		if expectCode >= 0 && x.Code != expectCode {
			out = append(out, vlab.V("C14", "outcome_changed", fmt.Sprintf("got%d:want%d", x.Code, expectCode), fmt.Sprintf("invocation status %d (%s), expected %d: deferred commands must not change the outcome", x.Code, firstN(x.ErrStr, 100), expectCode)))
		}
		return out
	}
}

// E4 for a callee whose execution is shared (run: once). The executor logs "skipping execution
// of task" when a caller finds the execution registered and starts waiting for it: from that
// trace position on both callers are known to be inside their call of the shared task (one runs
// it, the other waits), so a deferred command of either caller that starts later is that
// caller continuing - it may only start after the shared task's last event (its defers included).
func c14SharedCallee(pg *Prog, ev []vlab.PE) []vlab.Violation {
	var out []vlab.Violation
	for _, st := range pg.Tasks {
		if st.Run != "once" {
			continue
		}
		q, sLast := -1, -1
		for _, e := range ev {
			if e.K == 'L' && q < 0 && strings.HasSuffix(e.Extra, ":"+st.Name) {
				q = e.Pos
			}
			if e.Task == st.Name {
				sLast = e.Pos
			}
		}
		if q < 0 || sLast < 0 {
			continue
		}
		for _, ct := range pg.Tasks {
			calls := 0
			for _, c := range ct.Cmds {
				if c.Call != nil && !c.Defer && c.Call.Task == st.Name {
					calls++
				}
			}
			if calls == 0 {
				continue
			}
			for _, e := range ev {
				if e.K != 'S' || e.Task != ct.Name || e.Pos < q || e.Pos > sLast {
					continue
				}
				if j, _ := e.CmdIndex(); j >= 0 && j < len(ct.Cmds) && ct.Cmds[j].Defer {
					out = append(out, vlab.V("C14", "caller_continued_before_defers", "shared_callee", fmt.Sprintf("%s ran its deferred entry %d at position %d while the shared (run: once) task %s it had called was still running (last event at %d; a caller was waiting for it since %d)", e.Inst(), j, e.Pos, st.Name, sLast, q)))
					break
				}
			}
		}
	}
	return out
}

func lastOfFirstEvent(es []vlab.PE) int {
	if len(es) == 0 {
		return -1
	}
	return es[0].Pos
}

func firstFailCode(pg *Prog, ev []vlab.PE, vpPrefix string) int {
	for _, e := range ev {
		if e.K == 'F' && e.Task != "" && strings.HasPrefix(e.VP, vpPrefix) && isFailure(pg, e) {
			j, _ := e.CmdIndex()
			return pg.ExitOf(e.Inst(), j)
		}
	}
	return 0
}

type c14Spec struct {
	pg   *Prog
	code int // expected status; -1: not constrained (schedule dependent)
}

func c14Specs() map[string]*c14Spec {
	m := map[string]*c14Spec{}
	dfr := func() C { return C{Defer: true, Extra: "{{.EXIT_CODE}}"} }
	sib := &T{Name: "sib", Cmds: []C{P(), P()}}
	m["two-defers-success"] = &c14Spec{code: 0, pg: &Prog{Tasks: []*T{
		{Name: "root", Deps: []Ref{D("main"), D("sib")}},
		{Name: "main", Cmds: []C{P(), dfr(), P(), dfr(), P()}}, sib}}}
	m["fail-after-both"] = &c14Spec{code: 201, pg: &Prog{Tasks: []*T{
		{Name: "root", Cmds: []C{dfr(), P(), dfr(), Fx(7), P()}}}}}
	m["fail-between"] = &c14Spec{code: 201, pg: &Prog{Tasks: []*T{
		{Name: "root", Cmds: []C{dfr(), Fx(5), dfr(), P()}}}}}
	m["fail-before-any"] = &c14Spec{code: 201, pg: &Prog{Tasks: []*T{
		{Name: "root", Cmds: []C{Fx(4), dfr(), P()}}}}}
	// a variable called EXIT_CODE is in scope (a default in vars, a value handed to a reporting
	// task): the deferred command still sees the code of the command that failed in ITS task
	m["exit-code-variable-also-defined"] = &c14Spec{code: 201, pg: &Prog{Vars: [][2]string{{"EXIT_CODE", "0"}}, Tasks: []*T{
		{Name: "root", Cmds: []C{dfr(), {Defer: true, Call: &Ref{Task: "report", Vars: [][2]string{{"EXIT_CODE", "{{.EXIT_CODE}}"}}}}, P(), Fx(9), P()}},
		{Name: "report", Cmds: []C{dfr(), P(), Fx(4)}}}}}
	m["ignored-failure"] = &c14Spec{code: 0, pg: &Prog{Tasks: []*T{
		{Name: "root", Cmds: []C{dfr(), {Exit: 6, IgnoreError: true}, P()}}}}}
	m["failing-defer"] = &c14Spec{code: 0, pg: &Prog{Tasks: []*T{
		{Name: "root", Deps: []Ref{D("sib")}, Cmds: []C{{Defer: true, Exit: 9}, P(), {Defer: true, Exit: 8}, P()}}, sib}}}
	m["defer-task-call"] = &c14Spec{code: 0, pg: &Prog{Tasks: []*T{
		{Name: "root", Deps: []Ref{D("main"), D("sib")}},
		{Name: "main", Cmds: []C{P(), {Defer: true, Call: &Ref{Task: "cleanup"}}, P(), dfr(), P()}},
		{Name: "cleanup", Cmds: []C{P(), P()}}, sib}}}
	m["nested-with-own-defers"] = &c14Spec{code: 0, pg: &Prog{Tasks: []*T{
		{Name: "root", Deps: []Ref{D("main"), D("sib")}},
		{Name: "main", Cmds: []C{dfr(), Call("sub"), P(), Call("sub2"), P()}},
		{Name: "sub", Cmds: []C{dfr(), P(), {Defer: true, Call: &Ref{Task: "cleanup"}}, P()}},
		{Name: "sub2", Cmds: []C{{Defer: true, Call: &Ref{Task: "cleanup"}}, P()}},
		{Name: "cleanup", Cmds: []C{P()}}, sib}}}
	m["nested-failing-callee-ignored"] = &c14Spec{code: 0, pg: &Prog{Tasks: []*T{
		{Name: "root", IgnoreError: true, Cmds: []C{Call("sub"), P()}},
		{Name: "sub", Cmds: []C{dfr(), P(), Fx(3), P()}}}}}
	m["alias-and-wildcard"] = &c14Spec{code: 0, pg: &Prog{Tasks: []*T{
		{Name: "root", Cmds: []C{{Call: &Ref{Task: "main", As: "m"}}, P(), {Call: &Ref{Task: "w-*", As: "w-x"}}, P()}},
		{Name: "main", Aliases: []string{"m"}, Cmds: []C{dfr(), P()}},
		{Name: "w-*", Cmds: []C{dfr(), P()}}}}}
	m["same-task-twice-different-vars"] = &c14Spec{code: 0, pg: &Prog{Tasks: []*T{
		{Name: "root", IgnoreError: true, Cmds: []C{
			{Call: &Ref{Task: "sub", Vars: [][2]string{{"X", "one"}}}},
			{Call: &Ref{Task: "sub", Vars: [][2]string{{"X", "two"}}}},
			{Call: &Ref{Task: "flaky", Vars: [][2]string{{"CODE", "7"}}}}, {Call: &Ref{Task: "flaky", Vars: [][2]string{{"CODE", "0"}}}}, P()}},
		{Name: "sub", Cmds: []C{{Defer: true, Extra: "{{.X}}"}, P()}},
		{Name: "flaky", Cmds: []C{dfr(), {ExitVar: "CODE"}, P()}}}}}
	m["once-with-defer-two-callers-and-failing-sibling"] = &c14Spec{code: -1, pg: &Prog{Tasks: []*T{
		{Name: "root", Deps: []Ref{D("a"), D("b"), D("failer")}},
		{Name: "a", Cmds: []C{dfr(), CallS("s", "="), P()}},
		{Name: "b", Cmds: []C{dfr(), CallS("s", "="), P()}},
		{Name: "s", Run: "once", Cmds: []C{dfr(), P(), P()}},
		{Name: "failer", Cmds: []C{P(), F()}}}}}
	m["exit-code-from-dep-of-callee"] = &c14Spec{code: -1, pg: &Prog{Tasks: []*T{
		{Name: "root", Cmds: []C{dfr(), Call("x"), P()}},
		{Name: "x", Deps: []Ref{D("bad")}, Cmds: []C{dfr(), P()}},
		{Name: "bad", Cmds: []C{P(), F()}}}}}
	m["cancelled-by-sibling"] = &c14Spec{code: -1, pg: &Prog{Tasks: []*T{
		{Name: "root", Deps: []Ref{D("main"), D("failer")}},
		{Name: "main", Cmds: []C{dfr(), P(), dfr(), P(), P()}},
		{Name: "failer", Cmds: []C{P(), F()}}}}}
	return m
}

func c14Units(tier string) []*Unit {
	var us []*Unit
	us = append(us, c14FailingTemplateUnit(), c14NestedIncludeDeferUnit(), c14InterruptedProcessUnit())
	specs := c14Specs()
	var names []string
	for k := range specs {
		names = append(names, k)
	}
	sort.Strings(names)
	for _, name := range names {
		sp := specs[name]
		bound, shards := boundFor(tier, len(sp.pg.Tasks), 0)
		if tier != "thorough" && len(sp.pg.Tasks) >= 5 {
			bound, shards = 1, 1
		}
		sc := scen(name+"/cinf", sp.pg, vlab.Options{WaitLog: true}, "root")
		us = append(us, &Unit{Name: sc.Name, Sc: sc, Bound: bound, Prune: true, Check: both(c14Check(sp.pg, sp.code), c02Check(sp.pg)), Weight: len(sp.pg.Tasks), Shards: shards})
		if tier == "thorough" || name == "defer-task-call" {
			sc := scen(name+"/c1", sp.pg, vlab.Options{Concurrency: 1}, "root")
			us = append(us, &Unit{Name: sc.Name, Sc: sc, Bound: bound, Prune: true, Check: both(c14Check(sp.pg, sp.code), c02Check(sp.pg)), Weight: len(sp.pg.Tasks), Shards: shards})
		}
	}
	return us
}

// A deferred entry whose template cannot be evaluated leaves the other deferred entries of the
// task unaffected: each still runs once, templated, with .EXIT_CODE, and a deferred
// task call with a templated name still reaches its task.
func c14FailingTemplateUnit() *Unit {
	pr := func(task string, idx int, vp, extra string) string {
		return fmt.Sprintf("printf '%%s\\n' 'P|%s|%d|%s|%s'", task, idx, vp, extra)
	}
	tf := "version: '3'\ntasks:\n  root:\n    vars: {WORDS: 'a b', KIND: x}\n    cmds:\n" +
		"      - defer: " + pr("root", 0, "@", "{{.EXIT_CODE}}") + "\n" +
		"      - defer: {task: 'clean-{{.KIND}}', vars: {VP: '@>root.c1'}}\n" +
		"      - defer: " + pr("root", 2, "@", `{{index (splitList " " .WORDS) 5}}`) + "\n" +
		"      - " + pr("root", 3, "@", "") + "\n" +
		"      - " + pr("root", 4, "@", "") + "; exit 7\n" +
		"  clean-x:\n    cmds:\n      - " + pr("clean-x", 0, "{{.VP}}", "") + "\n"
	sc := &vlab.Scenario{Name: "defer-with-failing-template-next-to-others/cinf", Files: map[string]string{"Taskfile.yml": tf}, Calls: []vlab.CallSpec{{Task: "root"}}}
	return &Unit{Name: sc.Name, Sc: sc, Bound: 0, Prune: false, Weight: 1, Check: func(x *vlab.Exec) []vlab.Violation {
		out := generic("C14", x)
		n := map[string]int{}
		extra := map[string]string{}
		var order []string
		for _, e := range vlab.ParseTrace(x.Trace) {
			if e.K == 'S' && e.Task != "" {
				k := e.Task + "|" + e.Idx
				n[k]++
				extra[k] = e.Extra
				order = append(order, k)
			}
		}
		if n["root|0"] != 1 {
			out = append(out, vlab.V("C14", "defer_missing", "defer_cmd:next_to_failing_template", fmt.Sprintf("the first-registered deferred command ran %d times (entries that ran: %v)", n["root|0"], order)))
		} else if extra["root|0"] != "7" {
			out = append(out, vlab.V("C14", "exit_code_var", "next_to_failing_template", fmt.Sprintf("the deferred command saw EXIT_CODE=%q, expected \"7\"", extra["root|0"])))
		}
		if n["clean-x|0"] != 1 {
			out = append(out, vlab.V("C14", "defer_missing", "defer_task:next_to_failing_template", fmt.Sprintf("the deferred call of 'clean-{{.KIND}}' ran clean-x %d times (entries that ran: %v)", n["clean-x|0"], order)))
		}
		// (what the entry with the failing template itself does is outside the property: on the
		// pinned tree it runs once with its raw text)
		if x.Code != 201 {
			out = append(out, vlab.V("C14", "outcome_changed", fmt.Sprintf("got%d:want201", x.Code), fmt.Sprintf("status %d (%s): the failing command's outcome must stand", x.Code, firstN(x.ErrStr, 100))))
		}
		return out
	}}
}

// A deferred task call declared in a Taskfile that is included at depth 2 names a task of its
// own Taskfile.
func c14NestedIncludeDeferUnit() *Unit {
	pr := func(task string, idx int, vp string) string {
		return fmt.Sprintf("printf '%%s\\n' 'P|%s|%d|%s|'", task, idx, vp)
	}
	files := map[string]string{
		"Taskfile.yml": "version: '3'\nincludes:\n  mid: ./mid.yml\ntasks:\n  root:\n    cmds:\n      - task: mid:inner:job\n",
		"mid.yml":      "version: '3'\nincludes:\n  inner: ./inner.yml\ntasks:\n  cleanup:\n    cmds:\n      - " + pr("mid:cleanup", 0, "=") + "\n",
		"inner.yml": "version: '3'\ntasks:\n  job:\n    cmds:\n      - defer: {task: cleanup}\n      - " + pr("mid:inner:job", 1, "=") + "\n" +
			"  cleanup:\n    cmds:\n      - " + pr("mid:inner:cleanup", 0, "=") + "\n",
	}
	sc := &vlab.Scenario{Name: "deferred-task-call-in-nested-include/cinf", Files: files, Calls: []vlab.CallSpec{{Task: "root"}}}
	return &Unit{Name: sc.Name, Sc: sc, Bound: 0, Prune: false, Weight: 1, Check: func(x *vlab.Exec) []vlab.Violation {
		out := generic("C14", x)
		var order []string
		for _, e := range vlab.ParseTrace(x.Trace) {
			if e.K == 'S' && e.Task != "" {
				order = append(order, e.Task)
			}
		}
		if strings.Join(order, ",") != "mid:inner:job,mid:inner:cleanup" {
			out = append(out, vlab.V("C14", "defer_missing", "defer_task:nested_include", fmt.Sprintf("ran %v, expected the job and then the cleanup task of its own Taskfile (mid:inner:cleanup) (status %d %s)", order, x.Code, firstN(x.ErrStr, 100))))
		}
		return out
	}}
}

// A command that is an external process, interrupted because a sibling failed, which handles
// the interrupt and exits with a status of its own (7): it failed like any other command, so the
// task's deferred command runs and sees EXIT_CODE=7. The two tasks are ordered through files
// (the sibling fails only once the process is known to be running); nothing depends on timing.
func c14InterruptedProcessUnit() *Unit {
	name := "cli/interrupted-external-process-exits-with-own-status"
	tf := `version: '3'
silent: true
tasks:
  parent:
    deps: [worker, failing]
  worker:
    cmds:
      - defer: echo "worker-defer={{.EXIT_CODE}}" >> worker.out
      - sh -c 'trap "exit 7" INT TERM; touch worker.started; while true; do sleep 0.05; done'
  failing:
    cmds:
      - while [ ! -f worker.started ]; do sleep 0.05; done
      - exit 1
  alone:
    cmds:
      - defer: echo "alone-defer={{.EXIT_CODE}}" >> alone.out
      - sh -c 'exit 7'
`
	return &Unit{Name: name, Weight: 1, Custom: func(u *Unit, dir string, deadline time.Time) *vlab.UnitResult {
		res := &vlab.UnitResult{SigCounts: map[string]int{}, Extra: map[string]any{}}
		n := 0
		var samples []any
		for _, c := range []struct{ task, file, want string }{{"alone", "alone.out", "alone-defer=7"}, {"parent", "worker.out", "worker-defer=7"}} {
			os.RemoveAll(dir)
			os.MkdirAll(dir, 0o755)
			os.WriteFile(filepath.Join(dir, "Taskfile.yml"), []byte(tf), 0o644)
			_, se, rc := RunCLI(dir, nil, "", c.task)
			n++
			b, _ := os.ReadFile(filepath.Join(dir, c.file))
			got := strings.TrimSpace(string(b))
			samples = append(samples, map[string]any{"task": c.task, "status": rc, "deferred_output": got})
			if got != c.want || rc == 0 {
				v := vlab.V("C14", "exit_code_var", "interrupted_process:"+c.task, fmt.Sprintf("task %s: the deferred command wrote %q (status %d, stderr %q), expected %q and a failing status", c.task, got, rc, firstN(se, 120), c.want))
				v.Scenario = name
				v.Input = map[string]any{"taskfile": tf, "args": []string{c.task}}
				res.SigCounts[v.Sig]++
				res.Violations = append(res.Violations, v)
			}
		}
		res.Extra["samples"] = samples
		res.Stats = vlab.Stats{Scenario: name, Execs: n, States: n, Transitions: n, Outcomes: 1, Exhaustive: true}
		return res
	}}
}
