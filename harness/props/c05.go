package props

import (
	"fmt"
	"os"
	"path/filepath"
	"sort"
	"strings"
	"time"

	"github.com/go-task/task/v3/zverif/vlab"
)

func init() { registry["C05"] = c05Units }

type c05Shape struct {
	name      string
	method    string
	generates bool
	status    bool
	included  bool   // the task is defined in an included Taskfile (same directory) and called as inc:build
	gen2      bool   // a second generates entry (out2.txt)
	genInSrc  bool   // the generated file lies among the matched sources (src/bundle.txt)
	genOnce   bool   // the command writes the generated file only when it is missing (its mtime is not refreshed)
	depGen    bool   // a dependency (re)generates one of the matched sources from seed.txt
	excl      string // where the exclude entry sits: "after" (documented use) | "before" (excluded files are re-included by the later pattern)
}

func (sh c05Shape) taskfile() string {
	s := "version: '3'\ntasks:\n  build:\n    method: " + sh.method + "\n    sources:\n"
	if sh.excl == "before" {
		s += "      - exclude: 'src/skip/**/*.txt'\n      - 'src/**/*.txt'\n"
	} else {
		s += "      - 'src/**/*.txt'\n      - exclude: 'src/skip/**/*.txt'\n"
	}
	if sh.generates {
		if sh.gen2 {
			s += "    generates: ['out.txt', 'out2.txt']\n"
		} else {
			s += "    generates: ['out.txt']\n"
		}
	}
	if sh.genInSrc {
		s += "    generates: ['src/bundle.txt']\n"
	}
	if sh.depGen {
		s += "    deps: [gen]\n"
	}
	if sh.status {
		s += "    status: ['test -f ok.flag']\n"
	}
	s += "    cmds:\n      - 'echo run >> trace.log'\n"
	if sh.genInSrc {
		s += "      - 'echo bundled > src/bundle.txt'\n"
	}
	if sh.generates && sh.genOnce {
		s += "      - 'test -f out.txt || echo built > out.txt'\n"
	} else if sh.generates {
		s += "      - 'echo built > out.txt'\n"
		if sh.gen2 {
			s += "      - 'echo built > out2.txt'\n"
		}
	}
	if sh.depGen {
		s += "  gen:\n    cmds:\n      - 'cp seed.txt src/g.txt'\n"
	}
	return s
}

type c05Model struct {
	EverOK bool
	Forced bool              // the last successful run was a forced one
	Fp     map[string]string // reference fingerprint (matched path -> content / mtime) at the last successful run
	Causes []string
	NoOps  []string // events since the last successful run
}

func (m *c05Model) Key() string {
	var ks []string
	for k, v := range m.Fp {
		ks = append(ks, k+"="+v)
	}
	sort.Strings(ks)
	return fmt.Sprintf("%v/%v/%s/%s", m.EverOK, m.Forced, strings.Join(ks, ","), strings.Join(m.NoOps, ","))
}
func (m *c05Model) Clone() hModel {
	c := &c05Model{EverOK: m.EverOK, Forced: m.Forced, Fp: map[string]string{}, NoOps: append([]string{}, m.NoOps...)}
	for k, v := range m.Fp {
		c.Fp[k] = v
	}
	return c
}

// refFingerprint: the reference matcher (patterns applied in order, a later exclude removes
// earlier matches, a later include re-adds) and the fingerprint the property defines: names
// and contents for checksum, names and modification times for timestamp. Modification times
// are compared as ranks-free exact values within one history step (restored snapshots keep them).
func refFingerprint(dir string, sh c05Shape) map[string]string {
	fp := map[string]string{}
	filepath.Walk(filepath.Join(dir, "src"), func(p string, info os.FileInfo, err error) error {
		if err != nil || info.IsDir() || !strings.HasSuffix(p, ".txt") {
			return nil
		}
		rel, _ := filepath.Rel(dir, p)
		if sh.excl == "after" && strings.HasPrefix(rel, filepath.Join("src", "skip")+string(filepath.Separator)) {
			return nil
		}
		if sh.method == "checksum" {
			b, _ := os.ReadFile(p)
			fp[rel] = strings.TrimSpace(string(b))
		} else {
			fp[rel] = fmt.Sprint(info.ModTime().UnixNano())
		}
		return nil
	})
	return fp
}

// fpChange classifies how the matched set changed.
func fpChange(old, cur map[string]string, method string) string {
	var added, removed, changed []string
	for k, v := range cur {
		if o, ok := old[k]; !ok {
			added = append(added, k)
		} else if o != v {
			changed = append(changed, k)
		}
	}
	for k := range old {
		if _, ok := cur[k]; !ok {
			removed = append(removed, k)
		}
	}
	switch {
	case len(added) == 1 && len(removed) == 1 && len(changed) == 0 && old[removed[0]] == cur[added[0]]:
		if filepath.Base(added[0]) == filepath.Base(removed[0]) {
			return "moved_same_basename"
		}
		return "renamed"
	case len(added) > 0 && len(removed) == 0 && len(changed) == 0:
		return "added"
	case len(removed) > 0 && len(added) == 0 && len(changed) == 0:
		return "removed"
	case len(changed) > 0 && len(added) == 0 && len(removed) == 0:
		if method == "timestamp" {
			return "mtime_changed"
		}
		return "edited"
	case len(added)+len(removed)+len(changed) == 0:
		return ""
	}
	// several files at once: if nothing was edited and every file that appeared carries the value
	// (content / modification time) of one that disappeared, the change is made of removals and
	// renames only
	if len(changed) == 0 && len(removed) > len(added) {
		gone := map[string]int{}
		for _, k := range removed {
			gone[old[k]]++
		}
		pure := true
		for _, k := range added {
			if gone[cur[k]] == 0 {
				pure = false
				break
			}
			gone[cur[k]]--
		}
		if pure {
			return "removed_and_renamed"
		}
	}
	return "several"
}
func (m *c05Model) cause(ev string, is bool) {
	l := &m.NoOps
	for _, x := range *l {
		if x == ev {
			return
		}
	}
	*l = append(*l, ev)
	sort.Strings(*l)
}

func toggle(p string) {
	b, _ := os.ReadFile(p)
	if strings.TrimSpace(string(b)) == "1" {
		os.WriteFile(p, []byte("2\n"), 0o644)
	} else {
		os.WriteFile(p, []byte("1\n"), 0o644)
	}
}

func c05Events(sh c05Shape) []hEvent {
	exists := func(rel string) func(s snapshot, _ hModel) bool {
		return func(s snapshot, _ hModel) bool { _, ok := s[rel]; return ok }
	}
	absent := func(rel string) func(s snapshot, _ hModel) bool {
		return func(s snapshot, _ hModel) bool { _, ok := s[rel]; return !ok }
	}
	both := func(a, b func(s snapshot, m hModel) bool) func(s snapshot, m hModel) bool {
		return func(s snapshot, m hModel) bool { return a(s, m) && b(s, m) }
	}
	// skipMatters: with the exclude entry BEFORE the including pattern the later pattern re-includes the files
	skipMatters := sh.excl == "before"
	fe := func(name string, enabled func(s snapshot, m hModel) bool, isCause bool, f func(dir string)) hEvent {
		return hEvent{Name: name, Enabled: enabled, Apply: func(dir string, hm hModel, _ []string) []vlab.Violation {
			f(dir)
			hm.(*c05Model).cause(name, isCause)
			return nil
		}}
	}
	ts := sh.method == "timestamp"
	evs := []hEvent{
		fe("edit-a", exists("src/a.txt"), true, func(d string) { toggle(filepath.Join(d, "src/a.txt")) }),
		fe("edit-nested", nil, true, func(d string) { toggle(filepath.Join(d, "src/d/c.txt")) }),
		fe("edit-excluded", nil, skipMatters, func(d string) { toggle(filepath.Join(d, "src/skip/s.txt")) }),
		fe("edit-excluded-deep", nil, skipMatters, func(d string) { toggle(filepath.Join(d, "src/skip/deep/x/s2.txt")) }),
		fe("edit-unmatched", nil, false, func(d string) { toggle(filepath.Join(d, "other.md")) }),
		fe("touch-a", exists("src/a.txt"), ts, func(d string) { n := time.Now(); os.Chtimes(filepath.Join(d, "src/a.txt"), n, n) }),
		fe("add-b", absent("src/b.txt"), true, func(d string) { os.WriteFile(filepath.Join(d, "src/b.txt"), []byte("x\n"), 0o644) }),
		fe("rm-b", exists("src/b.txt"), true, func(d string) { os.Remove(filepath.Join(d, "src/b.txt")) }),
		fe("rename-a-to-e", both(exists("src/a.txt"), absent("src/e.txt")), true, func(d string) { os.Rename(filepath.Join(d, "src/a.txt"), filepath.Join(d, "src/e.txt")) }),
		fe("move-a-into-subdir", both(exists("src/a.txt"), absent("src/d/a.txt")), true, func(d string) { os.Rename(filepath.Join(d, "src/a.txt"), filepath.Join(d, "src/d/a.txt")) }),
		fe("add-excluded", absent("src/skip/t.txt"), skipMatters, func(d string) { os.WriteFile(filepath.Join(d, "src/skip/t.txt"), []byte("x\n"), 0o644) }),
	}
	if sh.generates {
		evs = append(evs, fe("rm-out", exists("out.txt"), true, func(d string) { os.Remove(filepath.Join(d, "out.txt")) }))
		if sh.gen2 {
			evs = append(evs, fe("rm-out2", exists("out2.txt"), true, func(d string) { os.Remove(filepath.Join(d, "out2.txt")) }))
		}
	}
	if sh.depGen {
		evs = append(evs, fe("edit-seed", nil, true, func(d string) { toggle(filepath.Join(d, "seed.txt")) }))
	}
	if sh.status {
		evs = append(evs,
			hEvent{Name: "rm-flag", Enabled: exists("ok.flag"), Apply: func(dir string, hm hModel, _ []string) []vlab.Violation {
				os.Remove(filepath.Join(dir, "ok.flag"))
				return nil
			}},
			hEvent{Name: "add-flag", Enabled: absent("ok.flag"), Apply: func(dir string, hm hModel, _ []string) []vlab.Violation {
				os.WriteFile(filepath.Join(dir, "ok.flag"), nil, 0o644)
				return nil
			}})
	}
	run := func(name string, args ...string) hEvent {
		return hEvent{Name: name, Apply: func(dir string, hm hModel, hist []string) []vlab.Violation {
			m := hm.(*c05Model)
			var out []vlab.Violation
			n0 := len(traceOf(dir))
			genMissingBefore := false
			if sh.generates {
				_, err := os.Stat(filepath.Join(dir, "out.txt"))
				genMissingBefore = err != nil
				if sh.gen2 {
					if _, err2 := os.Stat(filepath.Join(dir, "out2.txt")); err2 != nil {
						genMissingBefore = true
					}
				}
			}
			fpBefore := refFingerprint(dir, sh)
			_, se, rc := RunCLI(dir, nil, "", args...)
			ran := len(traceOf(dir)) > n0
			forced := name == "force"
			statusFailing := false
			if sh.status {
				_, err := os.Stat(filepath.Join(dir, "ok.flag"))
				statusFailing = err != nil
			}
			genMissing := genMissingBefore
			// (evaluated after the invocation: a dependency may regenerate a source first; the task's
			// own commands never touch its sources)
			cur := refFingerprint(dir, sh)
			if sh.genInSrc {
				cur = fpBefore // here the task's own command rewrites a matched file: what counts is the state it found
			}
			change := fpChange(m.Fp, cur, sh.method)
			expect := !m.EverOK || change != "" || forced || statusFailing || genMissing
			tag := sh.method
			_ = sh.excl
			switch {
			case rc != 0:
				out = append(out, vlab.V("C05", "run_failed", tag, fmt.Sprintf("task %v failed with %d: %s (history %v)", args, rc, firstN(se, 200), hist)))
			case expect && !ran:
				why := "first_run"
				switch {
				case forced:
					why = "force"
				case statusFailing:
					why = "status_failing"
				case change != "":
					why = change
				case genMissing:
					why = "generates_missing"
				}
				out = append(out, vlab.V("C05", "change_not_detected", tag+":"+why, fmt.Sprintf("the commands did not run although the matched sources changed (%s) since the last successful run: %v -> %v (history %v)", why, m.Fp, cur, hist)))
			case !expect && ran:
				why := "nothing"
				if len(m.NoOps) > 0 {
					why = m.NoOps[0]
				}
				if m.Forced {
					why = "after_forced_run"
				}
				out = append(out, vlab.V("C05", "not_idempotent", tag+":"+why, fmt.Sprintf("the commands ran again although nothing relevant changed since the last successful run (only %v) (history %v)", m.NoOps, hist)))
			}
			if ran && rc == 0 {
				m.EverOK = true
				m.Forced = forced
				m.Fp = refFingerprint(dir, sh)
				m.Causes, m.NoOps = nil, nil
			}
			return out
		}}
	}
	tn := "build"
	if sh.included {
		tn = "inc:build"
	}
	evs = append(evs, run("run", tn), run("force", "--force", tn))
	if sh.genOnce {
		// (one step deeper than the other shapes, over the events that matter for "was the second
		// run recorded": the full alphabet at depth 4 does not fit the quick budget)
		keep := map[string]bool{"edit-a": true, "add-b": true, "rm-b": true, "rm-out": true, "run": true, "force": true}
		var few []hEvent
		for _, e := range evs {
			if keep[e.Name] {
				few = append(few, e)
			}
		}
		return few
	}
	return evs
}

func c05Units(tier string) []*Unit {
	var shapes []c05Shape
	for _, m := range []string{"checksum", "timestamp"} {
		shapes = append(shapes,
			c05Shape{name: "plain", method: m, excl: "after"},
			c05Shape{name: "generates", method: m, generates: true, excl: "after"},
			c05Shape{name: "status", method: m, status: true, excl: "after"},
			c05Shape{name: "exclude-first", method: m, excl: "before"},
			c05Shape{name: "dep-regenerates-source", method: m, depGen: true, excl: "after"},
			c05Shape{name: "generates-written-once", method: m, generates: true, genOnce: true, excl: "after"},
			c05Shape{name: "in-included-taskfile", method: m, generates: true, included: true, excl: "after"},
			c05Shape{name: "two-generates", method: m, generates: true, gen2: true, excl: "after"},
		)
	}
	// (timestamp only: with checksum the first run legitimately records a fingerprint without the
	// file it is about to generate, so the second run executes once more)
	shapes = append(shapes, c05Shape{name: "generated-file-is-also-a-source", method: "timestamp", genInSrc: true, excl: "after"})
	var us []*Unit
	for _, m := range []string{"checksum", "timestamp"} {
		d := 4
		if tier == "thorough" {
			d = 6
		}
		us = append(us, c05LabelUnit(m, d))
	}
	{
		d := 3
		if tier == "thorough" {
			d = 5
		}
		us = append(us, c05NameContentBoundaryUnit(d, false), c05NameContentBoundaryUnit(d+1, true), c05StatusEntriesUnit(d+1), c05SubdirectoryUnit("checksum", d+1), c05SubdirectoryUnit("timestamp", d+1))
	}
	for _, sh := range shapes {
		sh := sh
		depth := 3
		if tier == "thorough" {
			depth = 5
		} else if sh.genOnce {
			depth = 4 // run, change, run (output kept), run: the shortest history that tells whether the second run was recorded
		}
		name := fmt.Sprintf("hist/%s/%s/depth%d", sh.method, sh.name, depth)
		us = append(us, &Unit{Name: name, Weight: 5, Custom: func(u *Unit, dir string, deadline time.Time) *vlab.UnitResult {
			cfg := hConfig{Name: name, Depth: depth, Events: c05Events(sh),
				Ignore: func(p string) bool { return p == "trace.log" },
				Init: func(dir string) hModel {
					files := map[string]string{"Taskfile.yml": sh.taskfile(), "src/a.txt": "1\n", "src/d/c.txt": "1\n", "src/skip/s.txt": "1\n", "src/skip/deep/x/s2.txt": "1\n", "other.md": "1\n"}
					if sh.depGen {
						files["seed.txt"] = "1\n"
					}
					if sh.included {
						files["inc.yml"] = files["Taskfile.yml"]
						files["Taskfile.yml"] = "version: '3'\nincludes:\n  inc: ./inc.yml\n"
					}
					if sh.status {
						files["ok.flag"] = ""
					}
					for rel, c := range files {
						p := filepath.Join(dir, rel)
						os.MkdirAll(filepath.Dir(p), 0o755)
						os.WriteFile(p, []byte(c), 0o644)
					}
					return &c05Model{Fp: map[string]string{}}
				}}
			return runHist(cfg, dir, deadline)
		}})
	}
	return us
}

// One task definition with a templated label ("build-{{.COMP}}") and sources that depend on the
// same variable is how a Taskfile keeps one fingerprint per component. Histories over
// {run a, run b, edit a, edit b}: a component's run is skipped exactly when that component's
// own sources are unchanged since that component's last successful run.
type c05LabelModel struct {
	Last map[string]string // component -> source fingerprint at its last successful run
}

func (m *c05LabelModel) Key() string {
	return fmt.Sprintf("a=%s,b=%s", m.Last["a"], m.Last["b"])
}
func (m *c05LabelModel) Clone() hModel {
	c := &c05LabelModel{Last: map[string]string{}}
	for k, v := range m.Last {
		c.Last[k] = v
	}
	return c
}

func c05LabelUnit(method string, depth int) *Unit {
	name := fmt.Sprintf("hist/%s/templated-label-per-component/depth%d", method, depth)
	tf := "version: '3'\ntasks:\n  build:\n    label: 'build-{{.COMP}}'\n    method: " + method + "\n    sources: ['{{.COMP}}/in.txt']\n    cmds:\n      - 'echo run-{{.COMP}} >> trace.log'\n"
	fpOfComp := func(dir, comp string) string {
		p := filepath.Join(dir, comp, "in.txt")
		if method == "checksum" {
			b, _ := os.ReadFile(p)
			return strings.TrimSpace(string(b))
		}
		st, err := os.Stat(p)
		if err != nil {
			return "missing"
		}
		return fmt.Sprint(st.ModTime().UnixNano())
	}
	var evs []hEvent
	for _, comp := range []string{"a", "b"} {
		comp := comp
		evs = append(evs, hEvent{Name: "edit-" + comp, Apply: func(dir string, m hModel, _ []string) []vlab.Violation {
			p := filepath.Join(dir, comp, "in.txt")
			b, _ := os.ReadFile(p)
			if strings.TrimSpace(string(b)) == "1" {
				os.WriteFile(p, []byte("2\n"), 0o644)
			} else {
				os.WriteFile(p, []byte("1\n"), 0o644)
			}
			return nil
		}})
		evs = append(evs, hEvent{Name: "run-" + comp, Apply: func(dir string, hm hModel, hist []string) []vlab.Violation {
			m := hm.(*c05LabelModel)
			var out []vlab.Violation
			cur := fpOfComp(dir, comp)
			before, _ := os.ReadFile(filepath.Join(dir, "trace.log"))
			_, se, rc := RunCLI(dir, nil, "", "build", "COMP="+comp)
			after, _ := os.ReadFile(filepath.Join(dir, "trace.log"))
			ran := strings.Contains(string(after[len(before):]), "run-"+comp)
			last, ever := m.Last[comp]
			wantRun := !ever || last != cur
			switch {
			case rc != 0:
				out = append(out, vlab.V("C05", "run_failed", method+":templated_label", fmt.Sprintf("status %d (%s) after %v", rc, firstN(se, 120), hist)))
			case ran && !wantRun:
				out = append(out, vlab.V("C05", "not_idempotent", method+":templated_label", fmt.Sprintf("component %s ran again although its sources are unchanged since its own last successful run (history %v)", comp, hist)))
			case !ran && wantRun:
				why := "changed since its last successful run"
				if !ever {
					why = "never built"
				}
				out = append(out, vlab.V("C05", "change_not_detected", method+":templated_label:"+map[bool]string{true: "changed", false: "never_built"}[ever], fmt.Sprintf("component %s was reported up to date although it was %s (history %v)", comp, why, hist)))
			}
			if rc == 0 && ran {
				m.Last[comp] = cur
			}
			return out
		}})
	}
	return &Unit{Name: name, Weight: 3, Custom: func(u *Unit, dir string, deadline time.Time) *vlab.UnitResult {
		cfg := hConfig{Name: name, Depth: depth, Events: evs,
			Ignore: func(p string) bool { return p == "trace.log" },
			Init: func(dir string) hModel {
				for rel, c := range map[string]string{"Taskfile.yml": tf, "a/in.txt": "1\n", "b/in.txt": "1\n"} {
					p := filepath.Join(dir, rel)
					os.MkdirAll(filepath.Dir(p), 0o755)
					os.WriteFile(p, []byte(c), 0o644)
				}
				return &c05LabelModel{Last: map[string]string{}}
			}}
		return runHist(cfg, dir, deadline)
	}}
}

// File names and contents that only differ in where the name ends and the content begins
// (s/a holding "bc", s/ab holding "c", s/abc empty, two empty files a and bc, ...): moving from
// one such tree to another is a removal plus an addition (a rename plus an edit) and must run the
// commands again. Histories over {switch to tree k, run}; checksum only (the fingerprint the
// property defines is "file names and contents").
type c05TreeModel struct {
	Last string // tree at the last successful run ("" = never)
}

func (m *c05TreeModel) Key() string   { return m.Last }
func (m *c05TreeModel) Clone() hModel { c := *m; return &c }

func c05NameContentBoundaryUnit(depth int, dangling bool) *Unit {
	name := fmt.Sprintf("hist/checksum/name-content-boundary/depth%d", depth)
	trees := []map[string]string{
		{"a": "bc"}, {"ab": "c"}, {"abc": ""}, {"a": "", "bc": ""}, {"a": "b"}, {"ab": ""},
	}
	if dangling {
		// a dangling symbolic link among the matched names is not a file with contents; it must not
		// make Task blind to the files next to it
		name = fmt.Sprintf("hist/checksum/dangling-symlink-among-sources/depth%d", depth)
		trees = []map[string]string{{"a": "1"}, {"a": "2"}, {"a": "1", "b": "1"}}
	}
	treeKey := func(dir string) string {
		var parts []string
		ents, _ := os.ReadDir(filepath.Join(dir, "s"))
		for _, e := range ents {
			if e.Type()&os.ModeSymlink != 0 {
				continue
			}
			b, _ := os.ReadFile(filepath.Join(dir, "s", e.Name()))
			parts = append(parts, fmt.Sprintf("%q=%q", e.Name(), b))
		}
		sort.Strings(parts)
		return strings.Join(parts, ",")
	}
	setTree := func(dir string, t map[string]string) {
		ents, _ := os.ReadDir(filepath.Join(dir, "s"))
		for _, e := range ents {
			if e.Type()&os.ModeSymlink == 0 {
				os.Remove(filepath.Join(dir, "s", e.Name()))
			}
		}
		for n, c := range t {
			os.WriteFile(filepath.Join(dir, "s", n), []byte(c), 0o644)
		}
	}
	var evs []hEvent
	for k, t := range trees {
		k, t := k, t
		evs = append(evs, hEvent{Name: fmt.Sprintf("tree-%d", k), Apply: func(dir string, _ hModel, _ []string) []vlab.Violation {
			setTree(dir, t)
			return nil
		}})
	}
	evs = append(evs, hEvent{Name: "run", Apply: func(dir string, hm hModel, hist []string) []vlab.Violation {
		m := hm.(*c05TreeModel)
		var out []vlab.Violation
		cur := treeKey(dir)
		before, _ := os.ReadFile(filepath.Join(dir, "trace.log"))
		_, se, rc := RunCLI(dir, nil, "", "build")
		after, _ := os.ReadFile(filepath.Join(dir, "trace.log"))
		ran := len(after) > len(before)
		wantRun := m.Last == "" || m.Last != cur
		tag := "checksum:name_content_boundary"
		if dangling {
			tag = "checksum:dangling_symlink_among_sources"
		}
		switch {
		case rc != 0:
			out = append(out, vlab.V("C05", "run_failed", tag, fmt.Sprintf("status %d (%s) after %v", rc, firstN(se, 120), hist)))
		case ran && !wantRun:
			out = append(out, vlab.V("C05", "not_idempotent", tag, fmt.Sprintf("the commands ran again although the matched files {%s} are unchanged since the last successful run (history %v)", cur, hist)))
		case !ran && wantRun:
			out = append(out, vlab.V("C05", "change_not_detected", tag, fmt.Sprintf("reported up to date although the matched files changed from {%s} to {%s} since the last successful run (history %v)", m.Last, cur, hist)))
		}
		if rc == 0 && ran {
			m.Last = cur
		}
		return out
	}})
	tf := "version: '3'\ntasks:\n  build:\n    method: checksum\n    sources: ['s/*']\n    cmds:\n      - 'echo run >> trace.log'\n"
	return &Unit{Name: name, Weight: 3, Custom: func(u *Unit, dir string, deadline time.Time) *vlab.UnitResult {
		cfg := hConfig{Name: name, Depth: depth, Events: evs,
			Ignore: func(p string) bool { return p == "trace.log" },
			Init: func(dir string) hModel {
				os.MkdirAll(filepath.Join(dir, "s"), 0o755)
				os.WriteFile(filepath.Join(dir, "Taskfile.yml"), []byte(tf), 0o644)
				if dangling {
					os.Symlink("does-not-exist", filepath.Join(dir, "s", "zz-link"))
				}
				setTree(dir, trees[0])
				return &c05TreeModel{}
			}}
		return runHist(cfg, dir, deadline)
	}}
}

// Several status entries of different shell shapes (a negated command, an && list, a plain
// test): the task is up to date exactly when every entry succeeds on its own; a failing entry
// anywhere in the list makes the commands run. Histories over {toggle each flag, run}.
type c05NoModel struct{}

func (c05NoModel) Key() string   { return "" }
func (c05NoModel) Clone() hModel { return c05NoModel{} }

func c05StatusEntriesUnit(depth int) *Unit {
	name := fmt.Sprintf("hist/status-entries-of-several-shapes/depth%d", depth)
	tf := "version: '3'\ntasks:\n  build:\n    status:\n      - '! test -f stale.flag'\n      - 'test -f a.flag && test -f b.flag'\n      - 'test -d .'\n    cmds:\n      - 'echo run >> trace.log'\n"
	var evs []hEvent
	for _, f := range []string{"stale.flag", "a.flag", "b.flag"} {
		f := f
		evs = append(evs, hEvent{Name: "toggle-" + f, Apply: func(dir string, _ hModel, _ []string) []vlab.Violation {
			p := filepath.Join(dir, f)
			if _, err := os.Stat(p); err == nil {
				os.Remove(p)
			} else {
				os.WriteFile(p, nil, 0o644)
			}
			return nil
		}})
	}
	evs = append(evs, hEvent{Name: "run", Apply: func(dir string, _ hModel, hist []string) []vlab.Violation {
		var out []vlab.Violation
		has := func(f string) bool { _, err := os.Stat(filepath.Join(dir, f)); return err == nil }
		want := has("stale.flag") || !has("a.flag") || !has("b.flag")
		before, _ := os.ReadFile(filepath.Join(dir, "trace.log"))
		_, se, rc := RunCLI(dir, nil, "", "build")
		after, _ := os.ReadFile(filepath.Join(dir, "trace.log"))
		ran := len(after) > len(before)
		state := fmt.Sprintf("stale=%v a=%v b=%v", has("stale.flag"), has("a.flag"), has("b.flag"))
		switch {
		case rc != 0:
			out = append(out, vlab.V("C05", "run_failed", "status_entries", fmt.Sprintf("status %d (%s) after %v", rc, firstN(se, 120), hist)))
		case want && !ran:
			out = append(out, vlab.V("C05", "change_not_detected", "status_entries:status_failing", fmt.Sprintf("a status entry fails (%s) but the task was reported up to date (history %v)", state, hist)))
		case !want && ran:
			out = append(out, vlab.V("C05", "not_idempotent", "status_entries", fmt.Sprintf("every status entry succeeds (%s) but the commands ran (history %v)", state, hist)))
		}
		return out
	}})
	return &Unit{Name: name, Weight: 2, Custom: func(u *Unit, dir string, deadline time.Time) *vlab.UnitResult {
		cfg := hConfig{Name: name, Depth: depth, Events: evs,
			Ignore: func(p string) bool { return p == "trace.log" },
			Init: func(dir string) hModel {
				os.WriteFile(filepath.Join(dir, "Taskfile.yml"), []byte(tf), 0o644)
				os.WriteFile(filepath.Join(dir, "a.flag"), nil, 0o644)
				os.WriteFile(filepath.Join(dir, "b.flag"), nil, 0o644)
				return c05NoModel{}
			}}
		return runHist(cfg, dir, deadline)
	}}
}

// The project run from its root and from a subdirectory (Task finds the Taskfile by walking
// up): there is one record of the last successful run, whichever directory the user was in.
// Histories over {edit the source, run at the root, run in sub/}.
func c05SubdirectoryUnit(method string, depth int) *Unit {
	name := fmt.Sprintf("hist/%s/run-from-root-and-from-a-subdirectory/depth%d", method, depth)
	tf := "version: '3'\ntasks:\n  build:\n    method: " + method + "\n    sources: ['{{.ROOT_DIR}}/in.txt']\n    cmds:\n      - 'echo run >> {{.ROOT_DIR}}/trace.log'\n"
	fp := func(dir string) string {
		p := filepath.Join(dir, "in.txt")
		if method == "checksum" {
			b, _ := os.ReadFile(p)
			return string(b)
		}
		st, _ := os.Stat(p)
		return fmt.Sprint(st.ModTime().UnixNano())
	}
	evs := []hEvent{{Name: "edit", Apply: func(dir string, _ hModel, _ []string) []vlab.Violation {
		toggle(filepath.Join(dir, "in.txt"))
		return nil
	}}}
	for _, where := range []string{"root", "sub"} {
		where := where
		evs = append(evs, hEvent{Name: "run-in-" + where, Apply: func(dir string, hm hModel, hist []string) []vlab.Violation {
			m := hm.(*c05TreeModel)
			var out []vlab.Violation
			cur := fp(dir)
			before, _ := os.ReadFile(filepath.Join(dir, "trace.log"))
			cwd := dir
			if where == "sub" {
				cwd = filepath.Join(dir, "sub")
			}
			_, se, rc := RunCLI(cwd, nil, "", "build")
			after, _ := os.ReadFile(filepath.Join(dir, "trace.log"))
			ran := len(after) > len(before)
			wantRun := m.Last == "" || m.Last != cur
			tag := method + ":run_from_subdirectory"
			switch {
			case rc != 0:
				out = append(out, vlab.V("C05", "run_failed", tag, fmt.Sprintf("status %d (%s) after %v", rc, firstN(se, 120), hist)))
			case ran && !wantRun:
				out = append(out, vlab.V("C05", "not_idempotent", tag, fmt.Sprintf("the commands ran again (in %s) although the source is unchanged since the last successful run (history %v)", where, hist)))
			case !ran && wantRun:
				out = append(out, vlab.V("C05", "change_not_detected", tag, fmt.Sprintf("reported up to date (in %s) although the source changed since the last successful run (history %v)", where, hist)))
			}
			if _, err := os.Stat(filepath.Join(dir, "sub", ".task")); err == nil {
				out = append(out, vlab.V("C05", "state_outside_project_state_dir", tag, fmt.Sprintf("a .task directory appeared in the subdirectory the user happened to be in (history %v)", hist)))
			}
			if rc == 0 && ran {
				m.Last = cur
			}
			return out
		}})
	}
	return &Unit{Name: name, Weight: 2, Custom: func(u *Unit, dir string, deadline time.Time) *vlab.UnitResult {
		cfg := hConfig{Name: name, Depth: depth, Events: evs,
			Ignore: func(p string) bool { return p == "trace.log" },
			Init: func(dir string) hModel {
				os.MkdirAll(filepath.Join(dir, "sub"), 0o755)
				os.WriteFile(filepath.Join(dir, "Taskfile.yml"), []byte(tf), 0o644)
				os.WriteFile(filepath.Join(dir, "in.txt"), []byte("1\n"), 0o644)
				os.WriteFile(filepath.Join(dir, "sub", ".keep"), nil, 0o644)
				return &c05TreeModel{}
			}}
		return runHist(cfg, dir, deadline)
	}}
}
