package props

import (
	"fmt"

	"github.com/go-task/task/v3/zverif/vlab"
)

func init() { registry["C01"] = c01Units }

// c01Check: on every start of a command of instance I of task T, every dep of T must have
// completed successfully in the trace prefix.
func c01Check(pg *Prog) func(x *vlab.Exec) []vlab.Violation {
	refs := pg.Referrers()
	return func(x *vlab.Exec) []vlab.Violation {
		out := generic("C01", x)
		ev := vlab.ParseTrace(x.Trace)
		ti := vlab.IndexTrace(ev)
		for _, e := range ev {
			if e.K != 'S' || e.Task == "" {
				continue
			}
			t := pg.Task(e.Task)
			if t == nil {
				continue
			}
			in := e.Inst()
			// a command of a task called from a task-call entry (deferred or not) of T is T's
			// doing as well: T's deps must have succeeded before it
			if par, site, ok := vlab.ParentOf(in); ok && len(t.Deps) == 0 {
				if kind, _, _ := vlab.SiteIndex(site); kind == 'c' {
					if pt := pg.Task(par.Task); pt != nil && len(pt.Deps) > 0 {
						t, in = pt, par
					}
				}
			}
			for k, d := range t.Deps {
				di := vlab.CalleeInst(in, fmt.Sprintf("d%d", k), d)
				st := pg.Completed(ti, di, e.Pos, 0)
				if st == vlab.StOK {
					continue
				}
				dt := pg.Task(d.Task)
				mode := pg.Mode(dt)
				tags := mode
				if mode != "always" && refs[d.Task] > 1 {
					tags += ":shared"
				}
				clause := "dep_not_finished"
				if st == vlab.StFailed {
					clause = "dep_not_successful"
				} else if pg.FailureBefore(ev, e.Pos, nil) {
					tags += ":after_failure"
				} else {
					tags += ":no_failure"
				}
				out = append(out, vlab.V("C01", clause, tags,
					fmt.Sprintf("command %s|%s of %s started at trace position %d although its dep %s had not completed successfully", e.Task, e.Idx, e.Inst(), e.Pos, di)))
			}
		}
		return out
	}
}

func c01Progs() map[string]*Prog {
	m := map[string]*Prog{}
	for _, mode := range []string{"once", "when_changed"} {
		m["diamond-"+mode] = &Prog{Tasks: []*T{
			{Name: "root", Deps: []Ref{D("a"), D("b")}, Cmds: []C{P()}},
			{Name: "a", Deps: []Ref{DS("s", "=")}, Cmds: []C{P()}},
			{Name: "b", Deps: []Ref{DS("s", "=")}, Cmds: []C{P()}},
			{Name: "s", Run: mode, Cmds: []C{P(), P()}},
		}}
		m["diamond-"+mode+"-fail"] = &Prog{Tasks: []*T{
			{Name: "root", Deps: []Ref{D("a"), D("b")}, Cmds: []C{P()}},
			{Name: "a", Deps: []Ref{DS("s", "=")}, Cmds: []C{P()}},
			{Name: "b", Deps: []Ref{DS("s", "=")}, Cmds: []C{P()}},
			{Name: "s", Run: mode, Cmds: []C{P(), F()}},
		}}
	}
	m["twolevel-cancel"] = &Prog{Tasks: []*T{
		{Name: "root", Deps: []Ref{D("p"), D("b")}, Cmds: []C{P()}},
		{Name: "p", Deps: []Ref{D("a"), D("x")}, Cmds: []C{P()}},
		{Name: "a", Deps: []Ref{DS("s", "=")}, Cmds: []C{P()}},
		{Name: "b", Deps: []Ref{DS("s", "=")}, Cmds: []C{P()}},
		{Name: "x", Cmds: []C{F()}},
		{Name: "s", Run: "once", Cmds: []C{P(), P()}},
	}}
	m["dep-and-call"] = &Prog{Tasks: []*T{
		{Name: "root", Deps: []Ref{D("a")}, Cmds: []C{CallS("s", "="), P()}},
		{Name: "a", Deps: []Ref{DS("s", "=")}, Cmds: []C{P()}},
		{Name: "s", Run: "once", Cmds: []C{P(), P()}},
	}}
	m["chain-always"] = &Prog{Tasks: []*T{
		{Name: "root", Deps: []Ref{D("a")}, Cmds: []C{P()}},
		{Name: "a", Deps: []Ref{D("b")}, Cmds: []C{P(), P()}},
		{Name: "b", Cmds: []C{P(), P()}},
	}}
	m["fanout-fail"] = &Prog{Tasks: []*T{
		{Name: "root", Deps: []Ref{D("a"), D("b"), D("c")}, Cmds: []C{P()}},
		{Name: "a", Cmds: []C{P(), P()}},
		{Name: "b", Cmds: []C{P(), F()}},
		{Name: "c", Deps: []Ref{D("d")}, Cmds: []C{P()}},
		{Name: "d", Cmds: []C{P()}},
	}}
	m["ignoring-task-with-failing-dep"] = &Prog{Tasks: []*T{
		{Name: "root", Deps: []Ref{D("a")}, Cmds: []C{P()}},
		{Name: "a", IgnoreError: true, Deps: []Ref{D("b"), D("c")}, Cmds: []C{P(), P()}},
		{Name: "b", Cmds: []C{P(), F()}},
		{Name: "c", Cmds: []C{P()}},
	}}
	// deferred commands (and deferred task calls) are commands of the task too
	m["failing-dep-of-task-with-defers"] = &Prog{Tasks: []*T{
		{Name: "root", IgnoreError: true, Deps: []Ref{D("a")}, Cmds: []C{P()}},
		{Name: "a", Deps: []Ref{D("b"), D("c")}, Cmds: []C{{Defer: true}, {Defer: true, Call: &Ref{Task: "x"}}, P()}},
		{Name: "b", Cmds: []C{P(), F()}},
		{Name: "c", Cmds: []C{P()}},
		{Name: "x", Cmds: []C{P()}},
	}}
	m["nested-call-in-dep"] = &Prog{Tasks: []*T{
		{Name: "root", Deps: []Ref{D("a"), D("b")}, Cmds: []C{P()}},
		{Name: "a", Cmds: []C{P(), Call("c"), P()}},
		{Name: "b", Cmds: []C{Call("c")}},
		{Name: "c", Deps: []Ref{D("d")}, Cmds: []C{P()}},
		{Name: "d", Cmds: []C{P()}},
	}}
	return m
}

func c01Units(tier string) []*Unit {
	var us []*Unit
	// an included Taskfile with two run-once tasks whose names end in the same segment (shared with C06)
	us = append(us, c06IncludeUnit(tier), c01RootRefUnit(), c01ForDepsUnit())
	progs := c01Progs()
	for _, name := range sortedProgNames(progs) {
		pg := progs[name]
		for _, conc := range []int{0, 1, 2} {
			bound, shards := boundFor(tier, len(pg.Tasks), conc)
			if bound < 0 {
				continue
			}
			if tier != "thorough" {
				// sized so that every quick unit completes its stated bound within the per-unit deadline
				if name == "twolevel-cancel" && conc == 1 {
					continue // > 50 000 schedules at one preemption; thorough explores it in 16 shards
				}
				if name == "fanout-fail" && conc == 0 {
					shards = 16
				}
			}
			sc := scen(fmt.Sprintf("%s/c%s", name, concName(conc)), pg, vlab.Options{Concurrency: conc}, "root")
			us = append(us, &Unit{Name: sc.Name, Sc: sc, Bound: bound, Prune: true, Check: c01Check(pg), Weight: len(pg.Tasks)*10 + conc, Shards: shards})
		}
	}
	// --parallel roots sharing a dependency
	pg := &Prog{Tasks: []*T{
		{Name: "a", Deps: []Ref{DS("s", "=")}, Cmds: []C{P()}},
		{Name: "b", Deps: []Ref{DS("s", "=")}, Cmds: []C{P()}},
		{Name: "s", Run: "once", Cmds: []C{P(), P()}},
	}}
	for _, conc := range []int{0, 1} {
		sc := scen(fmt.Sprintf("parallel-roots/c%s", concName(conc)), pg, vlab.Options{Concurrency: conc, Parallel: true}, "a", "b")
		us = append(us, &Unit{Name: sc.Name, Sc: sc, Bound: 2, Prune: true, Check: c01Check(pg), Weight: 3})
	}
	if tier == "thorough" {
		us = append(us, taskgraphUnits("taskgraph3", []int{0, 2}, 2)...)
	}
	return us
}

func sortedProgNames(m map[string]*Prog) []string {
	mm := map[string]bool{}
	for k := range m {
		mm[k] = true
	}
	return vlab.SortedSet(mm)
}

// A dependency written as a root reference (":gen-proto") from an included Taskfile, next to a
// root wildcard task declared earlier that would also match the name: the listed task itself has
// finished before the dependent's command starts.
func c01RootRefUnit() *Unit {
	pr := func(task string, vp string) string {
		return "printf '%s\\n' 'P|" + task + "|0|" + vp + "|'"
	}
	files := map[string]string{
		"Taskfile.yml": "version: '3'\nincludes:\n  inc: ./inc.yml\ntasks:\n  'gen-*':\n    cmds:\n      - " + pr("gen-STAR", "{{index .MATCH 0}}") + "\n  gen-proto:\n    aliases: [gp]\n    cmds:\n      - " + pr("gen-proto", "=") + "\n",
		"inc.yml":      "version: '3'\ntasks:\n  build:\n    deps: [':gen-proto']\n    cmds:\n      - " + pr("inc:build", "@") + "\n  build2:\n    deps: [':gp']\n    cmds:\n      - " + pr("inc:build2", "@") + "\n",
	}
	sc := &vlab.Scenario{Name: "root-reference-dep-next-to-matching-wildcard/cinf", Files: files, Calls: []vlab.CallSpec{{Task: "inc:build"}, {Task: "inc:build2"}}}
	return &Unit{Name: sc.Name, Sc: sc, Bound: 0, Prune: false, Weight: 1, Check: func(x *vlab.Exec) []vlab.Violation {
		out := generic("C01", x)
		var order []string
		for _, e := range vlab.ParseTrace(x.Trace) {
			if e.K == 'F' && e.Task != "" {
				order = append(order, e.Task)
			}
		}
		if got := fmt.Sprint(order); got != "[gen-proto inc:build gen-proto inc:build2]" || x.Code != 0 {
			out = append(out, vlab.V("C01", "dep_not_finished", "always:root_reference", fmt.Sprintf("commands finished in the order %v (status %d %s); expected the listed dep gen-proto before each dependent", order, x.Code, firstN(x.ErrStr, 80))))
		}
		return out
	}}
}

// A deps list that mixes plain entries with a for: entry (which expands into one dependency per
// item): every listed task, before and after the loop and once per item, has finished before
// the dependent's command starts.
func c01ForDepsUnit() *Unit {
	pr := func(task string, vp string) string {
		return "printf '%s\\n' 'P|" + task + "|0|" + vp + "|'"
	}
	files := map[string]string{
		"Taskfile.yml": "version: '3'\ntasks:\n  root:\n    deps:\n      - setup\n      - for: [alpha, beta]\n        task: gen\n        vars: {WHO: '{{.ITEM}}'}\n      - tail\n      - for: [x]\n        task: 'last-{{.ITEM}}'\n    cmds:\n      - " + pr("root", "@") + "\n" +
			"  setup:\n    cmds:\n      - " + pr("setup", "=") + "\n  gen:\n    cmds:\n      - " + pr("gen", "{{.WHO}}") + "\n  tail:\n    cmds:\n      - " + pr("tail", "=") + "\n  last-x:\n    cmds:\n      - " + pr("last-x", "=") + "\n",
	}
	sc := &vlab.Scenario{Name: "deps-list-mixing-plain-and-for-entries/cinf", Files: files, Calls: []vlab.CallSpec{{Task: "root"}}}
	return &Unit{Name: sc.Name, Sc: sc, Bound: 1, Prune: true, Weight: 2, Check: func(x *vlab.Exec) []vlab.Violation {
		out := generic("C01", x)
		done := map[string]bool{}
		for _, e := range vlab.ParseTrace(x.Trace) {
			if e.K == 'F' && e.Task != "" {
				done[e.Task+"/"+e.VP] = true
			}
			if e.K == 'S' && e.Task == "root" {
				for _, want := range []string{"setup/=", "gen/alpha", "gen/beta", "tail/=", "last-x/="} {
					if !done[want] {
						out = append(out, vlab.V("C01", "dep_not_finished", "always:for_in_deps", fmt.Sprintf("the command of root started although its dependency %s had not finished (finished so far: %v; status %d %s)", want, vlab.SortedSet(done), x.Code, firstN(x.ErrStr, 80))))
					}
				}
			}
		}
		if x.Code != 0 {
			out = append(out, vlab.V("C01", "run_failed", "for_in_deps", fmt.Sprintf("status %d %s", x.Code, firstN(x.ErrStr, 120))))
		}
		return out
	}}
}
