package props

import (
	"bytes"
	"io"
	"strings"
)

type limitedBuf struct{ b bytes.Buffer }

func (l *limitedBuf) Write(p []byte) (int, error) {
	if l.b.Len() < 1<<20 {
		l.b.Write(p)
	}
	return len(p), nil
}
func (l *limitedBuf) String() string { return l.b.String() }

func stringsReader(s string) io.Reader { return strings.NewReader(s) }
