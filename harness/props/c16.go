package props

import (
	"context"
	"encoding/json"
	"fmt"
	"io"
	"os"
	"os/exec"
	"path/filepath"
	"runtime"
	"sort"
	"strings"
	"time"

	task "github.com/go-task/task/v3"
	"github.com/go-task/task/v3/zverif/vlab"
	"gopkg.in/yaml.v3"
)

func init() { registry["C16"] = c16Units }

// the valid skeleton: one value at every schema position Task knows
const c16Skeleton = `
version: '3'
output: {group: {begin: b, end: e, error_only: false}}
method: checksum
run: once
silent: false
interval: 1s
set: [e]
shopt: [globstar]
dotenv: ['.env']
env: {E: v}
vars:
  A: a
  B: {sh: echo b}
  C: {ref: .A}
  D: {map: {k: v}}
  L: [1, 2]
includes:
  inc:
    taskfile: ./inc.yml
    dir: .
    optional: false
    internal: false
    flatten: false
    aliases: [i]
    excludes: [x]
    vars: {IV: 1}
tasks:
  t:
    desc: d
    summary: s
    aliases: [ta]
    deps:
      - {task: u, vars: {X: 1}, silent: true}
      - u
      - {for: [a, b], task: u, vars: {X: '{{.ITEM}}'}}
    cmds:
      - echo hi
      - {cmd: echo x, silent: true, ignore_error: true, platforms: [linux], set: [e], shopt: [globstar]}
      - {task: u, vars: {X: 1}, silent: true}
      - {defer: echo d}
      - {defer: {task: u, vars: {X: 1}}}
      - {for: [a, b], cmd: 'echo {{.ITEM}}'}
      - {for: {var: L, as: IT}, cmd: 'echo {{.IT}}'}
      - {for: {matrix: {K: [1, 2], M: {ref: .L}}}, cmd: 'echo {{.ITEM.K}}'}
      - {for: sources, cmd: echo}
    sources: ['*.txt', {exclude: 'x.txt'}]
    generates: ['out']
    status: ['true']
    preconditions: ['true', {sh: 'true', msg: m}]
    requires: {vars: [A, {name: B, enum: [b]}]}
    platforms: [linux, linux/amd64]
    dir: .
    vars: {TV: 1}
    env: {TE: 1}
    dotenv: ['.env']
    method: timestamp
    run: always
    label: l
    prefix: p
    internal: false
    silent: false
    interactive: false
    ignore_error: false
    set: [e]
    shopt: [globstar]
  u:
    cmds: ['true']
  short: echo short
  list-short: [echo a, echo b]
`

var c16Known = []string{"task", "cmd", "sh", "ref", "vars", "for", "matrix", "var", "name", "enum", "exclude", "taskfile", "msg", "defer", "map", "group", "begin", "as", "split", "from", "list"}

func c16Shapes(tier string) map[string]func() any {
	sh := map[string]func() any{
		"null":        func() any { return nil },
		"empty_str":   func() any { return "" },
		"str":         func() any { return "zz" },
		"int":         func() any { return 7 },
		"bool":        func() any { return true },
		"empty_list":  func() any { return []any{} },
		"list_scalar": func() any { return []any{"s"} },
		"list_list":   func() any { return []any{[]any{}} },
		"list_null":   func() any { return []any{nil} },
		"empty_map":   func() any { return map[string]any{} },
		"unknown_key": func() any { return map[string]any{"zzunknown": 1} },
		"long_str":    func() any { return strings.Repeat("x", 1024) },
		"float":       func() any { return 1.5 },
		"template":    func() any { return "{{.NOPE}} {{" },
		// strings that a shell-word expansion (dir:, include taskfile:/dir:) reads as no word or as an error
		"hash_str":                 func() any { return "#out" },
		"backslash_nl":             func() any { return "\\\n" },
		"blank_str":                func() any { return " \t " },
		"shell_meta":               func() any { return "$(x ${ `" },
		"yaml_date":                func() any { return time.Date(2001, 12, 14, 0, 0, 0, 0, time.UTC) }, // an unquoted 2001-12-14 decodes to a time value
		"for_var_and_empty_matrix": func() any { return map[string]any{"var": "X", "matrix": map[string]any{}} },
		"ref_to_string_map":        func() any { return map[string]any{"ref": `split "/" "a/b"`} }, // a map[string]string travelling through variables
		"list_opt_o":               func() any { return []any{"errexit", "o"} },                    // set: / shopt: entries that are bare option letters
	}
	for _, k := range c16Known {
		k := k
		sh["map_"+k+"_scalar"] = func() any { return map[string]any{k: "s"} }
		sh["map_"+k+"_emptymap"] = func() any { return map[string]any{k: map[string]any{}} }
		if tier == "thorough" {
			sh["map_"+k+"_null"] = func() any { return map[string]any{k: nil} }
		}
	}
	return sh
}

type c16Pos struct {
	path []any // keys (string) and indices (int)
}

func (p c16Pos) String() string {
	var parts []string
	for _, k := range p.path {
		parts = append(parts, fmt.Sprint(k))
	}
	return strings.Join(parts, ".")
}

func c16Positions(v any, path []any, out *[]c16Pos) {
	if len(path) > 0 {
		*out = append(*out, c16Pos{append([]any{}, path...)})
	}
	switch x := v.(type) {
	case map[string]any:
		keys := make([]string, 0, len(x))
		for k := range x {
			keys = append(keys, k)
		}
		sort.Strings(keys)
		for _, k := range keys {
			c16Positions(x[k], append(path, k), out)
		}
	case []any:
		for i, e := range x {
			c16Positions(e, append(path, i), out)
		}
	}
}

func c16Set(v any, path []any, nv any) any {
	if len(path) == 0 {
		return nv
	}
	switch x := v.(type) {
	case map[string]any:
		c := map[string]any{}
		for k, e := range x {
			c[k] = e
		}
		c[path[0].(string)] = c16Set(x[path[0].(string)], path[1:], nv)
		return c
	case []any:
		c := append([]any{}, x...)
		c[path[0].(int)] = c16Set(x[path[0].(int)], path[1:], nv)
		return c
	}
	return v
}

// a crash: a Go panic (exit status 2 with a goroutine dump) or a hang
func c16Crash(se string, rc int) string {
	if rc == -2 {
		return "hang"
	}
	if strings.Contains(se, "panic:") || strings.Contains(se, "goroutine ") && strings.Contains(se, "[running]") || strings.Contains(se, "fatal error:") {
		return "panic"
	}
	return ""
}

// where a panic happened (first Task frame), for the signature
func panicSite(se string) string {
	lines := strings.Split(se, "\n")
	for i, l := range lines {
		if strings.HasPrefix(l, "github.com/go-task/task/v3") && !strings.HasPrefix(l, "github.com/go-task/task/v3/zverif/") && i+1 < len(lines) {
			fn := l
			if j := strings.IndexByte(fn, '('); j > 0 && !strings.Contains(fn[:j], ".") {
				fn = fn[:j]
			}
			fn = strings.TrimPrefix(fn, "github.com/go-task/task/v3")
			if k := strings.LastIndex(fn, "("); k > 0 {
				fn = fn[:k]
			}
			return strings.TrimSpace(fn)
		}
	}
	for _, l := range lines {
		if strings.HasPrefix(l, "panic:") {
			return firstN(l, 60)
		}
	}
	return "unknown"
}

var c16Invocations = [][]string{
	{"--list-all", "--json"}, {"--dry", "t", "short", "list-short", "inc:it"}, {"--summary", "t"}, {"t"}, {"--status", "t"}, {"--dry", "a(b", "x*"},
}

var c16TextInvocations = [][]string{{"--list-all", "--json"}, {"--dry", "t", "a(b"}, {"t"}, {"--dry", "a", "ab", "a-b", "aa", "x", "a:b"}}

func c16RunDoc(dir string, files map[string]string, extraEnv []string) (crash string, detail string, site string) {
	os.RemoveAll(dir)
	os.MkdirAll(dir, 0o755)
	for rel, c := range files {
		p := filepath.Join(dir, rel)
		os.MkdirAll(filepath.Dir(p), 0o755)
		os.WriteFile(p, []byte(c), 0o644)
	}
	for _, args := range c16TextInvocations {
		_, se, rc := RunCLI(dir, extraEnv, "", args...)
		if c := c16Crash(se, rc); c != "" {
			return c, fmt.Sprintf("task %v: %s", args, firstN(se, 600)), panicSite(se)
		}
	}
	return "", "", ""
}

type c16Doc struct {
	Pos   string            `json:"pos"`
	Shape string            `json:"shape"`
	Files map[string]string `json:"files"`
}

// C16Child runs documents in-process (fast) inside a child process of the harness; a panic
// on one of Task's own goroutines or a hang kills only the child, and the parent attributes
// it to the document that was running.
func C16Child(docsFile string, from int) {
	b, err := os.ReadFile(docsFile)
	if err != nil {
		fmt.Println("ERR", err)
		os.Exit(3)
	}
	var docs []c16Doc
	if err := json.Unmarshal(b, &docs); err != nil {
		fmt.Println("ERR", err)
		os.Exit(3)
	}
	dir := filepath.Join(filepath.Dir(docsFile), "proj")
	for k := from; k < len(docs); k++ {
		fmt.Printf("START %d\n", k)
		done := make(chan string, 1)
		go func() { done <- c16InProcess(dir, docs[k].Files) }()
		select {
		case p := <-done:
			if p != "" {
				fmt.Printf("PANIC %d %s\n", k, strings.ReplaceAll(p, "\n", "\\n"))
			} else {
				fmt.Printf("OK %d\n", k)
			}
		case <-time.After(30 * time.Second):
			fmt.Printf("HANG %d\n", k)
			os.Exit(4)
		}
		if os.Getenv("C16_ONE") != "" {
			break // confirmation run of a single document
		}
	}
	fmt.Println("DONE")
}

// c16InProcess: read, merge, list, compile, resolve names, dry-run, status. Returns a
// description of a recovered panic ("" if none).
func c16InProcess(dir string, files map[string]string) (panicked string) {
	defer func() {
		if r := recover(); r != nil {
			buf := make([]byte, 4096)
			n := runtime.Stack(buf, false)
			panicked = fmt.Sprintf("%v\n%s", r, buf[:n])
		}
	}()
	os.RemoveAll(dir)
	os.MkdirAll(dir, 0o755)
	for rel, c := range files {
		p := filepath.Join(dir, rel)
		os.MkdirAll(filepath.Dir(p), 0o755)
		os.WriteFile(p, []byte(c), 0o644)
	}
	mk := func(opts ...task.ExecutorOption) *task.Executor {
		base := []task.ExecutorOption{task.WithDir(dir), task.WithStdout(io.Discard), task.WithStderr(io.Discard), task.WithStdin(strings.NewReader("")), task.WithVersionCheck(true)}
		return task.NewExecutor(append(base, opts...)...)
	}
	e := mk(task.WithDry(true))
	if err := e.Setup(); err != nil {
		return ""
	}
	e.ListTasks(task.ListOptions{ListAllTasks: true, FormatTaskListAsJSON: true})
	e.ListTasks(task.ListOptions{ListOnlyTasksWithDescriptions: true})
	e.ListTaskNames(true)
	var names []string
	for n := range e.Taskfile.Tasks.Keys(nil) {
		names = append(names, n)
	}
	for _, n := range append(names, "a(b", "x*", "nope", "inc:it", "") {
		call := &task.Call{Task: n}
		if _, err := e.GetTask(call); err == nil {
			e.FastCompiledTask(call)
			e.CompiledTask(call)
		}
		e.Run(context.Background(), &task.Call{Task: n})
		e.Status(context.Background(), &task.Call{Task: n})
	}
	es := mk(task.WithSummary(true))
	if es.Setup() == nil {
		es.Run(context.Background(), &task.Call{Task: "t"}, &task.Call{Task: "short"})
	}
	er := mk()
	if er.Setup() == nil {
		er.Run(context.Background(), &task.Call{Task: "t"})
	}
	return ""
}

func c16ShapeUnit(group string, positions []c16Pos, skeleton any, tier string) *Unit {
	name := "shape/" + group
	return &Unit{Name: name, Weight: len(positions), Custom: func(u *Unit, dir string, deadline time.Time) *vlab.UnitResult {
		shapes := c16Shapes(tier)
		var snames []string
		for k := range shapes {
			snames = append(snames, k)
		}
		sort.Strings(snames)
		inc := "version: '3'\ntasks:\n  it:\n    cmds: ['true']\n  x:\n    cmds: ['true']\n"
		var docs []c16Doc
		for _, pos := range positions {
			for _, sn := range snames {
				doc := c16Set(skeleton, pos.path, shapes[sn]())
				b, err := yaml.Marshal(doc)
				if err != nil {
					continue
				}
				docs = append(docs, c16Doc{Pos: pos.String(), Shape: sn, Files: map[string]string{"Taskfile.yml": string(b), "inc.yml": inc, ".env": "X=1\n", "a.txt": "1"}})
			}
		}
		res := c16RunBatch(name, docs, dir, deadline)
		res.Extra["positions"] = len(positions)
		res.Extra["shapes"] = len(snames)
		return res
	}}
}

// c16RunBatch runs the documents in crash-isolated child processes of the harness.
func c16RunBatch(name string, docs []c16Doc, dir string, deadline time.Time) *vlab.UnitResult {
	res := &vlab.UnitResult{SigCounts: map[string]int{}, Extra: map[string]any{}}
	{
		work := filepath.Dir(dir)
		docsFile := filepath.Join(work, "docs.json")
		jb, _ := json.Marshal(docs)
		os.WriteFile(docsFile, jb, 0o644)
		from := 0
		n := 0
		outcomes := map[string]bool{}
		exhaustive := true
		addV := func(k int, crash, site, detail string) {
			v := vlab.V("C16", crash, site, fmt.Sprintf("position %s replaced by shape %s: %s", docs[k].Pos, docs[k].Shape, detail))
			v.Scenario = name
			v.Input = map[string]any{"taskfile": docs[k].Files["Taskfile.yml"], "position": docs[k].Pos, "shape": docs[k].Shape}
			res.SigCounts[v.Sig]++
			if res.SigCounts[v.Sig] == 1 {
				res.Violations = append(res.Violations, v)
			}
		}
		hangsNotReproduced := 0
		for from < len(docs) {
			if !deadline.IsZero() && time.Now().After(deadline) {
				exhaustive = false
				break
			}
			c := exec.Command(os.Args[0], "-c16child", docsFile, "-c16from", fmt.Sprint(from))
			c.Env = append(os.Environ(), "GOMAXPROCS=2")
			var so, se limitedBuf
			c.Stdout, c.Stderr = &so, &se
			c.Run()
			last, lastState := from-1, ""
			for _, line := range strings.Split(so.String(), "\n") {
				f := strings.SplitN(line, " ", 3)
				if len(f) < 2 {
					continue
				}
				k := 0
				fmt.Sscanf(f[1], "%d", &k)
				switch f[0] {
				case "START":
					last, lastState = k, "START"
				case "OK":
					lastState = "OK"
					n++
					outcomes["ok"] = true
				case "PANIC":
					lastState = "PANIC"
					n++
					outcomes["panic"] = true
					txt := ""
					if len(f) == 3 {
						txt = strings.ReplaceAll(f[2], "\\n", "\n")
					}
					addV(k, "panic", panicSite(txt), firstN(txt, 700))
				case "HANG":
					lastState = "HANG"
					n++
					// a hang of the code under test repeats; a paused or overloaded machine does not:
					// the document is run once more, alone, before the hang is believed
					cc := exec.Command(os.Args[0], "-c16child", docsFile, "-c16from", fmt.Sprint(k))
					cc.Env = append(os.Environ(), "GOMAXPROCS=2", "C16_ONE=1")
					var so2, se2 limitedBuf
					cc.Stdout, cc.Stderr = &so2, &se2
					cc.Run()
					if strings.Contains(so2.String(), fmt.Sprintf("HANG %d\n", k)) {
						outcomes["hang"] = true
						addV(k, "hang", "in_process", "did not finish within 30s (twice: in its batch and alone)")
					} else if strings.Contains(so2.String(), fmt.Sprintf("OK %d\n", k)) {
						outcomes["ok"] = true
						hangsNotReproduced++
					} else {
						outcomes["crash"] = true
						addV(k, "panic", panicSite(se2.String()+so2.String()), "did not finish within 30s in its batch; alone: "+firstN(se2.String()+so2.String(), 700))
					}
				}
			}
			if strings.Contains(so.String(), "DONE") {
				break
			}
			if lastState == "START" {
				// the child died while running document `last`: a panic on another goroutine (or a fatal error)
				n++
				outcomes["crash"] = true
				addV(last, "panic", panicSite(se.String()), "child process died: "+firstN(se.String(), 700))
			}
			if last < from {
				res.HarnessErr = "c16 child made no progress: " + firstN(se.String()+so.String(), 300)
				break
			}
			from = last + 1
		}
		res.Extra["samples"] = []any{map[string]any{"position": docs[0].Pos, "shape": docs[0].Shape}, map[string]any{"position": docs[len(docs)-1].Pos, "shape": docs[len(docs)-1].Shape}}
		if hangsNotReproduced > 0 {
			res.Extra["timeouts_not_reproduced_alone"] = hangsNotReproduced
		}
		res.Stats = vlab.Stats{Scenario: name, Execs: n, States: n, Transitions: n, Outcomes: len(outcomes) + 1, Exhaustive: exhaustive}
		return res
	}
}

// included files: shape substitutions at the top level of the INCLUDED Taskfile, combined with
// every subset of include options that touch its tasks (excludes, flatten, internal, aliases)
func c16IncludeUnit(tier string) *Unit {
	name := "included-file-shapes-x-include-options"
	return &Unit{Name: name, Weight: 8, Custom: func(u *Unit, dir string, deadline time.Time) *vlab.UnitResult {
		incVariants := map[string]string{
			"valid-with-default": "version: '3'\ntasks:\n  default:\n    cmds: ['true']\n  it:\n    cmds: ['true']\n",
			"valid-no-default":   "version: '3'\ntasks:\n  it:\n    cmds: ['true']\n",
			"empty":              "",
			"only-version":       "version: '3'\n",
		}
		for _, key := range []string{"tasks", "vars", "env", "includes", "dotenv", "output", "set", "shopt", "method", "run", "silent", "interval", "version"} {
			for sn, sv := range map[string]string{"null": "", "tilde": " ~", "emptymap": " {}", "emptylist": " []", "str": " zz", "int": " 7"} {
				base := "version: '3'\ntasks:\n  default:\n    cmds: ['true']\n"
				if key == "tasks" || key == "version" {
					base = "version: '3'\n"
					if key == "version" {
						base = "tasks:\n  default:\n    cmds: ['true']\n"
					}
				}
				incVariants[key+"-"+sn] = base + key + ":" + sv + "\n"
			}
		}
		opts := []string{"excludes: [default]", "excludes: [it, nope]", "flatten: true", "internal: true", "aliases: [i, j]", "optional: true", "vars: {V: 1}", "dir: ./sub"}
		var docs []c16Doc
		var vnames []string
		for k := range incVariants {
			vnames = append(vnames, k)
		}
		sort.Strings(vnames)
		nsub := 1 << len(opts)
		for _, vn := range vnames {
			for mask := 0; mask < nsub; mask++ {
				if tier != "thorough" && bitsSet(mask) > 2 {
					continue
				}
				inc := "includes:\n  inc:\n    taskfile: ./inc.yml\n"
				for i, o := range opts {
					if mask&(1<<i) != 0 {
						inc += "    " + o + "\n"
					}
				}
				root := "version: '3'\n" + inc + "tasks:\n  t:\n    cmds: [{task: 'inc:it'}]\n  short: echo s\n"
				docs = append(docs, c16Doc{Pos: "inc.yml=" + vn, Shape: fmt.Sprintf("include-options-mask-%d", mask), Files: map[string]string{"Taskfile.yml": root, "inc.yml": incVariants[vn], "sub/.keep": ""}})
				if bitsSet(mask) <= 1 {
					// the same with an included file whose path sorts before the root Taskfile's
					root2 := strings.Replace(root, "./inc.yml", "./Build.yml", 1)
					docs = append(docs, c16Doc{Pos: "Build.yml=" + vn, Shape: fmt.Sprintf("include-options-mask-%d", mask), Files: map[string]string{"Taskfile.yml": root2, "Build.yml": incVariants[vn], "sub/.keep": ""}})
				}
			}
		}
		return c16RunBatch(name, docs, dir, deadline)
	}}
}

func bitsSet(m int) int {
	n := 0
	for ; m > 0; m >>= 1 {
		n += m & 1
	}
	return n
}

func c16TextUnit(name string, docs func() []map[string]string, env []string) *Unit {
	return &Unit{Name: name, Weight: 3, Custom: func(u *Unit, dir string, deadline time.Time) *vlab.UnitResult {
		res := &vlab.UnitResult{SigCounts: map[string]int{}, Extra: map[string]any{}}
		n := 0
		var samples []any
		outcomes := map[string]bool{}
		for _, files := range docs() {
			n++
			crash, detail, site := c16RunDoc(dir, files, env)
			outcomes[crash] = true
			if len(samples) < 2 {
				samples = append(samples, map[string]any{"taskfile": firstN(files["Taskfile.yml"], 200)})
			}
			if crash != "" {
				v := vlab.V("C16", crash, site, fmt.Sprintf("Taskfile %q: %s", firstN(files["Taskfile.yml"], 300), detail))
				v.Scenario = name
				v.Input = map[string]any{"files": files}
				res.SigCounts[v.Sig]++
				if res.SigCounts[v.Sig] == 1 {
					res.Violations = append(res.Violations, v)
				}
			}
		}
		res.Extra["samples"] = samples
		res.Stats = vlab.Stats{Scenario: name, Execs: n * len(c16TextInvocations), States: n, Transitions: n * len(c16TextInvocations), Outcomes: len(outcomes) + 1, Exhaustive: true}
		return res
	}}
}

func c16Units(tier string) []*Unit {
	var skeleton any
	if err := yaml.Unmarshal([]byte(c16Skeleton), &skeleton); err != nil {
		panic(err)
	}
	var positions []c16Pos
	c16Positions(skeleton, nil, &positions)
	// group positions into ~24 units
	groups := map[string][]c16Pos{}
	for i, p := range positions {
		g := fmt.Sprint(p.path[0])
		if g == "tasks" && len(p.path) > 2 {
			g = "tasks." + fmt.Sprint(p.path[1]) + "." + fmt.Sprint(p.path[2])
			if (p.path[2] == "cmds" || p.path[2] == "deps") && len(p.path) > 3 {
				g += "." + fmt.Sprint(p.path[3])
			}
		} else if g == "vars" && len(p.path) > 1 {
			g += "." + fmt.Sprint(p.path[1])
		}
		_ = i
		groups[g] = append(groups[g], p)
	}
	var us []*Unit
	var gnames []string
	for g := range groups {
		gnames = append(gnames, g)
	}
	sort.Strings(gnames)
	for _, g := range gnames {
		us = append(us, c16ShapeUnit(g, groups[g], skeleton, tier))
	}
	// line terminators with a decode error on each line
	for ti, term := range []string{"\n", "\r\n", "\r", "\u0085", "\u2028", "\u2029"} {
		term := term
		us = append(us, c16TextUnit(fmt.Sprintf("line-terminators/%d-%q", ti, term), func() []map[string]string {
			var docs []map[string]string
			lines := []string{"version: '3'", "vars:", "  A: a", "tasks:", "  t:", "    cmds:", "      - echo hi"}
			for bad := 0; bad < len(lines); bad++ {
				for _, junk := range []string{"  : : :", "\t- [", "    cmds: {a: b}", "  t: [1, {a: }", "    vars: [1]", "    deps: 5"} {
					ls := append([]string{}, lines...)
					ls[bad] = junk
					docs = append(docs, map[string]string{"Taskfile.yml": strings.Join(ls, term) + term})
					ls2 := append([]string{}, lines...)
					ls2 = append(ls2[:bad+1], append([]string{junk}, ls2[bad+1:]...)...)
					docs = append(docs, map[string]string{"Taskfile.yml": strings.Join(ls2, term)})
				}
			}
			if ti == 0 {
				docs = append(docs, map[string]string{"Taskfile.yml": ""}, map[string]string{"Taskfile.yml": "\x00\x01"}, map[string]string{"Taskfile.yml": "version: '3'\ntasks:\n  t:\n    cmds: {a: b}\r"},
					map[string]string{"Taskfile.yml": "- a\n- b\n"}, map[string]string{"Taskfile.yml": "just a string"}, map[string]string{"Taskfile.yml": "version: 3\ntasks: &a\n  t: *a\n"})
			}
			return docs
		}, nil))
	}
	// mixed line terminators: one line of the document ends differently from all the others
	us = append(us, c16TextUnit("line-terminators/mixed", func() []map[string]string {
		var docs []map[string]string
		lines := []string{"version: '3'", "vars:", "  A: a", "tasks:", "  t:", "    cmds:", "      - echo hi", ""}
		for _, pair := range [][2]string{{"\n", "\r"}, {"\n", "\r\n"}, {"\r\n", "\n"}, {"\n", "\u2028"}, {"\r", "\n"}} {
			for odd := 0; odd < len(lines)-1; odd++ {
				for bad := 0; bad < len(lines)-1; bad++ {
					for _, junk := range []string{"    cmds: {a: b}", "  t: [1, {a: }", "    deps: 5"} {
						doc := ""
						for i, l := range lines[:len(lines)-1] {
							if i == bad {
								l = junk
							}
							t := pair[0]
							if i == odd {
								t = pair[1]
							}
							doc += l + t
						}
						docs = append(docs, map[string]string{"Taskfile.yml": doc})
					}
				}
			}
		}
		return docs
	}, nil))
	us = append(us, c16IncludeUnit(tier), c16CommandTextUnit(), c16LateFailingVariableUnit())
	// include locations
	for _, remote := range []string{"0", "1"} {
		remote := remote
		us = append(us, c16TextUnit("include-locations/remote_experiment="+remote, func() []map[string]string {
			var docs []map[string]string
			for _, loc := range []string{"./inc.yml", "./missing.yml", ".", "./sub", "~", "~/nope.yml", "$HOME/x.yml", "${NOPE}", "", "-", "http://127.0.0.1:1/x.yml", "https://127.0.0.1:1/x.yml",
				"https://127.0.0.1:1/r.git", "https://127.0.0.1:1/r.git//p/Taskfile.yml", "https://127.0.0.1:1/r.git//", "git://127.0.0.1:1/r.git", "git://127.0.0.1:1/r.git//x?ref=main", "ssh://git@127.0.0.1:1/r.git//x", "git@127.0.0.1:r.git", "http://[::1", "://", "file:///nope", "C:\\x.yml", "{{.NOPE}}", "{{"} {
				for _, form := range []string{"  inc: %s\n", "  inc:\n    taskfile: %s\n    optional: true\n"} {
					docs = append(docs, map[string]string{
						"Taskfile.yml": "version: '3'\nincludes:\n" + fmt.Sprintf(form, vlabQ(loc)) + "tasks:\n  t:\n    cmds: ['true']\n",
						"inc.yml":      "version: '3'\ntasks:\n  it:\n    cmds: ['true']\n", "sub/Taskfile.yml": "version: '3'\ntasks:\n  it:\n    cmds: ['true']\n"})
				}
			}
			return docs
		}, []string{"TASK_X_REMOTE_TASKFILES=" + remote}))
	}
	// task names and requested names over the metacharacter alphabet
	us = append(us, c16TextUnit("task-names", func() []map[string]string {
		var docs []map[string]string
		for _, n1 := range c15Alphabet {
			for _, n2 := range []string{"x*", "a(b", "[", "\\", "plain"} {
				docs = append(docs, map[string]string{"Taskfile.yml": "version: '3'\ntasks:\n  " + vlabQ(n1) + ":\n    aliases: [" + vlabQ(n2) + "]\n    cmds: ['true']\n  " + vlabQ(n2+"2") + ":\n    cmds: ['true']\n  t:\n    cmds: [{task: " + vlabQ(n1) + "}]\n"})
			}
		}
		return docs
	}, nil))
	return us
}

// Command texts that exercise unusual corners of the embedded shell interpreter's builtins: a
// script that the interpreter cannot handle fails like any other command (Task does not panic).
func c16CommandTextUnit() *Unit {
	name := "command-texts/interpreter-builtins"
	return &Unit{Name: name, Weight: 2, Custom: func(u *Unit, dir string, deadline time.Time) *vlab.UnitResult {
		res := &vlab.UnitResult{SigCounts: map[string]int{}, Extra: map[string]any{}}
		n := 0
		var samples []any
		cmds := []string{
			`printf '%s\0' x`, `printf '\0'`, `printf '%d' x`, `printf %`, `printf '%*d' 99999 1`, `printf '%c' ''`, `printf '\x'`, `printf '%b' '\0777'`,
			`echo $((1/0))`, `echo $((1%0))`, `echo ${x:?unset}`, `echo ${#}`, `echo ${x:1:-5}`, `echo "${x[@]:1}"`, `x=(a b); echo ${x[99]}`, `x=abc; echo ${x:5:2}`, `echo ${!x}`,
			`shopt -s errexit`, `shopt -s nosuchopt`, `shopt -p`, `set -o`, `set -o nosuch`, `set --`, `shift 5`, `exit 999`, `exit -1`, `return 3`, `trap`, `trap 'echo x' NOSUCH`, `wait`, `wait 99999`, `cd /nonexistent/x`, `cd ''`,
			`[[ a =~ ( ]]`, `[[ -v ]]`, `[ a -eq b ]`, `test -t`, `(( `, `$(`, `echo "$(exit 3)"`, `: > /dev/full`, `readonly x=1; x=2`, `unset -f nosuch`, `type nosuch`, `command -v`, `eval ')'`, `. /nonexistent`, `source`, `exec`, `builtin nosuch`, `getopts`, `let`, `let 1/0`, `declare -A m; m[]=1`, `local x`, `umask 999`, `alias x=; x`, `pushd /; popd; popd`, `dirs -c; popd`, `printf '%(%Y)T' -1`, `mapfile < /dev/null`, `echo {1..3..0}`, `echo {a..z..-0}`,
		}
		for i, c := range cmds {
			tf := "version: '3'\ntasks:\n  t:\n    cmds:\n      - " + vlabQ(c) + "\n  v:\n    vars:\n      X: {sh: " + vlabQ(c) + "}\n    cmds:\n      - echo {{.X}}\n  s:\n    status:\n      - " + vlabQ(c) + "\n    cmds:\n      - 'true'\n"
			os.RemoveAll(dir)
			os.MkdirAll(dir, 0o755)
			os.WriteFile(filepath.Join(dir, "Taskfile.yml"), []byte(tf), 0o644)
			for _, req := range []string{"t", "v", "s"} {
				_, se, rc := RunCLI(dir, nil, "", req)
				n++
				if i < 2 && req == "t" {
					samples = append(samples, map[string]any{"command": c, "status": rc, "stderr": firstN(se, 100)})
				}
				if cr := c16Crash(se, rc); cr != "" {
					v := vlab.V("C16", cr, "command_text:"+panicSite(se), fmt.Sprintf("command %q (as %s): %s", c, map[string]string{"t": "a task command", "v": "a dynamic variable", "s": "a status command"}[req], firstN(se, 400)))
					v.Scenario = name
					v.Input = map[string]any{"taskfile": tf, "request": req}
					res.SigCounts[v.Sig]++
					if res.SigCounts[v.Sig] == 1 {
						res.Violations = append(res.Violations, v)
					}
				}
			}
		}
		res.Extra["samples"] = samples
		res.Stats = vlab.Stats{Scenario: name, Execs: n, States: n, Transitions: n, Outcomes: 2, Exhaustive: true}
		return res
	}}
}

// Variables that are evaluated again later in a run (for deferred commands, for the summary, for
// the fingerprint variables) and fail only then: a dynamic variable whose command text differs on
// every evaluation (so it is never served from the cache) and whose command starts failing once
// the task's own command has run.
func c16LateFailingVariableUnit() *Unit {
	name := "variables/dynamic-variable-failing-on-re-evaluation"
	return &Unit{Name: name, Weight: 1, Custom: func(u *Unit, dir string, deadline time.Time) *vlab.UnitResult {
		res := &vlab.UnitResult{SigCounts: map[string]int{}, Extra: map[string]any{}}
		n := 0
		var samples []any
		dyn := "{sh: 'test ! -e done.flag # {{randInt 0 2000000000}}'}"
		for _, c := range []struct{ label, task string }{
			{"deferred-command", "    vars:\n      X: " + dyn + "\n    cmds:\n      - defer: echo bye {{.X}}\n      - touch done.flag\n"},
			{"deferred-task-call", "    vars:\n      X: " + dyn + "\n    cmds:\n      - defer: {task: other, vars: {Y: '{{.X}}'}}\n      - touch done.flag\n"},
			{"global-variable-deferred-command", "    cmds:\n      - defer: echo bye {{.G}}\n      - touch done.flag\n"},
			{"later-command-calls-task", "    vars:\n      X: " + dyn + "\n    cmds:\n      - touch done.flag\n      - task: other\n        vars: {Y: '{{.X}}'}\n"},
		} {
			tf := "version: '3'\n"
			if strings.HasPrefix(c.label, "global") {
				tf += "vars:\n  G: " + dyn + "\n"
			}
			tf += "tasks:\n  t:\n" + c.task + "  other:\n    cmds:\n      - echo other {{.Y}}\n"
			os.RemoveAll(dir)
			os.MkdirAll(dir, 0o755)
			os.WriteFile(filepath.Join(dir, "Taskfile.yml"), []byte(tf), 0o644)
			_, se, rc := RunCLI(dir, nil, "", "t")
			n++
			if len(samples) < 2 {
				samples = append(samples, map[string]any{"case": c.label, "status": rc, "stderr": firstN(se, 100)})
			}
			if cr := c16Crash(se, rc); cr != "" {
				v := vlab.V("C16", cr, "late_failing_variable:"+panicSite(se), fmt.Sprintf("%s: %s", c.label, firstN(se, 400)))
				v.Scenario = name
				v.Input = map[string]any{"taskfile": tf, "request": "t"}
				res.SigCounts[v.Sig]++
				if res.SigCounts[v.Sig] == 1 {
					res.Violations = append(res.Violations, v)
				}
			}
		}
		res.Extra["samples"] = samples
		res.Stats = vlab.Stats{Scenario: name, Execs: n, States: n, Transitions: n, Outcomes: 2, Exhaustive: true}
		return res
	}}
}
