module zverifharness

go 1.23
