#!/bin/bash
# usage: trymutant.sh <patch> <prop> [vcheck args...]
# Applies a patch to a scratch worktree of /repo's HEAD (never to /repo itself), runs the
# check against that tree (VERIF_REPO) and removes the worktree again.
patch=$(readlink -f "$1"); shift; prop=$1; shift
wt=$(mktemp -d /tmp/mut-XXXXXX)
git -C /repo worktree add -q --detach "$wt" HEAD || exit 2
cleanup() { git -C /repo worktree remove --force "$wt" 2>/dev/null; rm -rf "$wt"; }
trap cleanup EXIT
cd "$wt" || exit 2
if git apply --check "$patch" 2>/dev/null; then git apply "$patch"
elif git apply -C1 --check "$patch" 2>/dev/null; then echo "(applied with -C1)"; git apply -C1 "$patch"
else echo "PATCH DOES NOT APPLY: $patch"; exit 3; fi
cd /verif && VERIF_REPO="$wt" bin/vcheck $prop "$@"; rc=$?
echo "rc=$rc"
exit $rc
