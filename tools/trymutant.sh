#!/bin/bash
# usage: trymutant.sh <patch> <prop> [vcheck args...]   — applies a patch to /repo, runs a check, reverts
patch=$1; shift; prop=$1; shift
cd /repo || exit 2
if git apply --check "$patch" 2>/dev/null; then git apply "$patch"
elif git apply -C1 --check "$patch" 2>/dev/null; then echo "(applied with -C1)"; git apply -C1 "$patch"
else echo "PATCH DOES NOT APPLY: $patch"; exit 3; fi
cd /verif && bin/vcheck $prop "$@"; rc=$?
git -C /repo checkout -q -- . ; git -C /repo reset -q; git -C /repo clean -fdq
echo "rc=$rc"
exit $rc
