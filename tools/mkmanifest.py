#!/usr/bin/env python3
"""Regenerates /verif/MANIFEST.json from the table below (kept in one place so it is always valid)."""
import json, sys
ENV = "GOFLAGS=-mod=mod GOPROXY=off GOSUMDB=off GOTOOLCHAIN=local"
A = "controlled-scheduler stateless model checking of the real Executor (iterative preemption bounding + happens-before state-key pruning)"
NOTE_A = "Bounded: the programs, --concurrency values and preemption bound listed per unit in the evidence; interleavings at hooked synchronisation operations and probe writes; scenario commands are mvdan/sh builtins (units that drive real external processes through the CLI are named cli/... or external-process-... and explore no schedule); every shell command is preceded by a scheduling point (a command takes time); a deadline only ever truncates the deepest bound (exhaustive:false, completed_bound reported)."
CHECKS = {
 "C01": dict(engine="A", technique=A + "; trace oracle: every dep completed successfully before each command start",
             text="Exhaustive exploration, within the stated preemption bound, of all schedules of the real Executor.Run on dependency graphs (diamonds over run-once/when_changed deps, failing shared deps, two-level cancellation, dep+call, parallel roots) x --concurrency {unlimited,1,2}; every command start is checked against the completion of every dep of its task.",
             note=NOTE_A),
 "C02": dict(engine="A", technique=A + "; trace oracle: per-instance command sequencing, synchronous calls, call variables",
             text="All schedules (bounded) of programs with nested calls to depth 3, list/matrix/var/matrix-ref loops, callee deps and defers, a concurrently running sibling; oracle: own entries strictly sequential in expansion order, nothing of a later entry (at any call depth) starts before every earlier entry incl. callee subtrees finished, callee prints exactly the call's vars.",
             note=NOTE_A),
 "C03": dict(engine="A+C", technique=A + "; plus exhaustive enumeration of exit codes 1..255 x failure position x --exit-code through the real CLI binary",
             text="Fail-stop under all bounded schedules (failure in called task, dep, nested call, shared run-once task, loops; ignore_error on cmd/task/for) and the complete status mapping for every exit code 1..255 through the CLI.",
             note=NOTE_A + " CLI matrix is sequential (no schedule)."),
 "C06": dict(engine="A", technique=A + "; oracle: execution counts per (task, variable set) and waiting",
             text="All bounded schedules of graphs referencing a deduplicated task from deps and cmds at depth<=3; when_changed variable flows (command text, env only, sub-call vars only, dynamic var, same); counts per run mode; referrers wait and observe the outcome.",
             note=NOTE_A),
 "C07": dict(engine="A", technique=A + "; oracle: in-flight commands <= N, exact deadlock detection, horizon, exists-overlap goals, cycle status",
             text="For N in {unlimited,1,2,3} and graphs (chain, fan-out, diamond over run-once, nested calls in deps, failing nested fan-out, failing shared once, parallel roots): limit never exceeded, no deadlock (exact: no enabled thread), termination within horizon with all work done, and for every independent pair a witnessed overlapping schedule; cyclic references end with 204/201.",
             note=NOTE_A + " Cycle scenarios: default schedule only (1000 nested calls per execution)."),
 "C13": dict(engine="A", technique=A + "; enumerated guard kinds x outcomes x positions",
             text="25 guard cases (platforms incl. multi-entry lists and platform + other guard, requires, enum, preconditions, prompts incl. multi-prompt, internal, with --yes/--force/--force-all) x positions (direct, dep, two deps, nested call, call from an ignore_error task, shared run-once); a precondition invalidated between two executions; internal through include options under all schedules with a sibling (bound 1 quick / 3 thorough): no command of a blocked task or of anything needing it runs; documented status class.",
             note=NOTE_A + " Prompts are answered through a line-at-a-time stdin with AssumeTerm."),
 "C14": dict(engine="A", technique=A + "; oracle: exactly-once, after last command, reverse order, before caller continues, EXIT_CODE",
             text="Programs with up to 3 defers (commands and task calls) at all positions, failing command at each position, nested tasks with own defers, alias/wildcard invocation, same task called repeatedly with different vars/outcome, cancellation by a failing sibling; all bounded schedules.",
             note=NOTE_A),
 "C04": dict(engine="B", technique="explicit-state BFS over edit/invocation histories on a real directory through the real CLI binary, with kill points at every command boundary, against a reference map fingerprint -> outcome of the last attempt",
             text="All histories up to depth 3 (quick) / 5 (thorough) over {edit, touch, add, remove source; remove generated file; run; run failing at command k; run killed (kill -9 of Task) at command boundary k; prompt declined/accepted; --dry; --status; --list-all --json; --force (ok/failing); run of a task sharing the state file} x method {checksum,timestamp} x task shapes {plain, generates, two generates entries, prompt, colliding names, namespaced+label, deps, differing global method, command rewrites one of its sources}; states deduplicated on (contents, mtime order, model). Oracle: a skipped run implies the last attempt at the present fingerprint succeeded and generates exist.",
             note="Bounded depth; crashes are process kills at command boundaries (no torn writes / power loss); cancellation by a sibling failure and a failure inside a called shared task are covered by two controlled-scheduler families (cancelled-by-sibling/*, last-command-calls-failed-shared-task/*, cancelled-inside-an-ignore_error-command/*, two-dependents-of-a-rerunning-fingerprinted-dep/*) whose every resulting directory is fed to a follow-up run; known findings (a:b / a-b share a state file; timestamp + generates after a failed or killed run or while another instance is still running) are listed in known_findings.jsonl."),
 "C05": dict(engine="B", technique="explicit-state BFS over file-operation/run histories through the real CLI binary against a reference matcher + fingerprint model",
             text="All histories up to depth 3/5 over {edit matched/nested/excluded/deeply-excluded/unmatched file, touch, add, remove, rename, move to sub-directory, add excluded, remove generated, toggle status flag, edit the seed a dependency regenerates a source from, run, --force} x method x shapes {plain, generates, two generates, generator that keeps an existing output, status, exclude-before-include, dep-regenerates-source, task in an included Taskfile}; plus histories over {run a, run b, edit a, edit b} for one task definition with a templated label (one fingerprint per component); oracle in both directions (idempotence and sensitivity).",
             note="Bounded depth and file alphabet; mtimes are real (tick discipline), state key uses the order type of mtimes."),
 "C09": dict(engine="A", technique="controlled-scheduler model checking of Executor.Setup with every Go-map iteration order (rewritten map ranges in taskfile, taskfile/ast and dominikbraun/graph) and every reader/merge goroutine schedule as explored choices",
             text="For 8 include configurations (siblings with overlapping vars/tasks, diamond, diamond with internal on one side, same file twice, nested siblings, flatten+aliases, optional include broken inside) every load with <=1 (quick) / <=2 (thorough) deviations from the canonical map order / default schedule computes the same canonical dump (task order, aliases, attributes, commands, global vars).",
             note="Any map order is allowed by the language, so invariance is demanded under all of them; deviations bounded; signature = minimal responsible deviation set."),
 "C11": dict(engine="A+B", technique="differential over call sequences within one Executor (every target after every sequence of <=2 other tasks vs alone) + controlled-scheduler model checking of X || T",
             text="Programs with same-text dynamic variables in different dirs/envs, the same task called with different vars (env, dynamic var, literal, sub-call, templated defer), global dynamic var per task, matrix refs; T's observable commands must equal the T-alone baseline, sequentially and under all bounded schedules when run concurrently.",
             note=NOTE_A),
 "C12": dict(engine="B", technique="explicit-state BFS over histories; every read-only invocation is checked for a byte- and mtime-identical tree and for not running commands",
             text="For every state reachable by C04's histories (depth 3/5) and every read-only invocation {--dry, --status, --list, --list-all, --list-all --json, --json --no-status, --summary, --dry --force, --summary/--dry with an uncompilable second task} x shapes (incl. dir: that does not exist yet, with and without dynamic variable / precondition / status commands; a deferred shell command; a label that depends on a call variable): snapshot (names, contents, mtimes, incl. .task) identical before and after, no command executed. Identical state => identical continuations (deterministic), so the continuation clause follows.",
             note="Bounded depth; snapshot compares every file of the project directory."),
 "C17": dict(engine="A", technique="controlled-scheduler model checking of the real output.Group / output.Prefixed wrappers: all chunkings (environment choices) x all interleavings of the underlying writes (unbounded, state-key pruning)",
             text="Direct harness: 2-3 threads each write every chunking (<=3 writes) of {'', 'x\\n', 'x', 'x\\ny', 'x\\ny\\n', '\\n'} through a wrapper and close; all begin/end/error_only settings; ALL interleavings; oracle: the stream is a sequence of whole blocks / whole prefixed lines, bytes conserved. Plus the same through the Executor with parallel deps (bound 2/3).",
             note="Underlying writer records each Write atomically (as os.File does); colours off."),
 "C18": dict(engine="A", technique="controlled-scheduler exploration with ThreadSanitizer: harness built with -race, scheduler hand-offs hidden from the detector (RaceDisable + norace), shims re-create exactly the happens-before edges of the real primitives; scheduling points also after releases",
             text="27 scenario bodies (the concurrency scenarios of C01/C02/C06/C07/C14/C17, templated defers in parallel, matrix-ref rows in parallel deps, same-text dynamic vars, failing run-once with two callers, --list-all --json, reader on sibling includes, wildcard/alias resolution and missing tasks resolved in parallel, shared set:/shopt: lists): every schedule within the bound is also a vector-clock race check of its happens-before class; a report counts when both stacks run through Task's own code.",
             note="Bound 0-2 (quick) / +1 (thorough); code paths no scenario reaches are not covered; races are reported per explored schedule (incidental synchronisation can order accesses in a given schedule)."),
 "C08": dict(engine="C", technique="bounded-exhaustive enumeration of include configurations on the real loader/executor (in-process) against a reference table of callable names, origins, directories, visible include vars and attributes",
             text="All 64 subsets of include options {dir, internal, flatten, aliases, excludes, vars} on one include x every callable name (namespaced, alias-namespaced, namespace-as-default, task aliases, internal, excluded, non-existent, via deps, ':'-root references); all 256 pairs of {flatten, aliases, excludes, internal} subsets on a two-level chain; attribute-by-attribute comparison of the merged copy with its definition (simple/advanced/flatten/nested include); diamonds, uneven diamonds, same file twice / twice nested with different vars, cycles (110), missing (non-)optional files, version mismatch, flatten collisions.",
             note="Bounded to the listed option alphabet and graph shapes; sequential (no schedule)."),
 "C10": dict(engine="C", technique="bounded-exhaustive enumeration of definition-site subsets through the real CLI against the documented precedence order",
             text="For one variable: all 128 subsets of {OS env, global vars, CLI NAME=value, include vars, included-Taskfile vars, call vars, task vars} x value kind at the winning site {literal, template over a lower variable, sh, ref} x task location {root, included, nested}; for one environment variable: all 32 subsets of {process env, global env, global dotenv (2 files), task dotenv (2 files), task env} x ENV_PRECEDENCE experiment x empty process value; special variables with/without override; one Taskfile included twice (and nested) with different include vars.",
             note="The order between Taskfile globals and CLI assignments, and between global env and global dotenv, is not stated by the property and not constrained."),
 "C15": dict(engine="C", technique="bounded-exhaustive enumeration of (task name set, aliases, requested name) over a metacharacter alphabet on the real Executor (in-process) against an independent reference resolver (own greedy '*' matcher, no regexp)",
             text="21 name tokens incl. ':', '.', '*', '-', '(', '[', '+', '$', '^', '|', '\\', ' ', '?', overlapping prefix/suffix patterns; all sets of <=2 names (both orders, root/included placement, as alias), alias layouts (shared, equal to a task name, matched by a wildcard), 3-name sets in thorough; ~40 requested names each: exact > first wildcard in Taskfile order (parent first) with exact MATCH > unique alias > 203 > 200 with suggestion for one-edit misses.",
             note="Bounded alphabet; suggestion oracle only demands a suggestion when exactly one plain name is one edit away."),
 "C16": dict(engine="C", technique="bounded-exhaustive shape-grammar enumeration: every schema position x every shape, executed in crash-isolated in-process batches (child processes of the harness) plus CLI runs for text-level cases; oracle: no panic, no hang",
             text="A skeleton Taskfile with a value at ~120 schema positions; each position replaced by each of 64 (quick) / 85 (thorough) shapes (null, scalars incl. a YAML timestamp, lists, maps with every known key, templates, 1 kB strings, strings a shell-word expansion reads as no word, option-letter lists); top-level shapes of an INCLUDED file x include-option subsets; decode errors on each line x 6 line terminators; 25 include locations x 2 forms x remote experiment on/off; 21x5 task/alias names. Pipeline per document: read, merge, list (json), compile, resolve 5+ names, dry-run, status, summary, real run.",
             note="Not arbitrary byte strings: the YAML lexer itself is exercised only through these documents. Panics on Task's own goroutines are caught by process isolation; a 30 s horizon per document."),
 "C19": dict(engine="C", technique="bounded-exhaustive enumeration of argument vectors over a hostile token alphabet through the real CLI binary and an argv-dumping helper",
             text="38 tokens (spaces, tab, newline, quotes, backslash, $VAR, $(cmd), backticks, globs, braces, operators, template delimiters, '=', empty, dash-prefixed, non-ASCII, 4 kB): all vectors of length <=2 and length 3 over the 9 most hostile tokens after '--' -> {{.CLI_ARGS}}; NAME=value -> {{shellQuote .X}} / {{q .X}} for every token and 60 combinations; NAME=a=b=c splitting; 10 --init path cases.",
             note="Known finding: values containing '{{' are template-expanded (recorded)."),
 "C20": dict(engine="D", technique="explicit-state BFS over (remote content version, server mode, cache files + timestamp age, approved checksum) with real CLI invocations against a loopback HTTP server owned by the harness",
             text="Server content {v1 (longer), v2}, modes {up, refusing, HTTP 500, (thorough) silent beyond --timeout}; 9 (12) flag combinations of --yes/--download/--offline/--expiry/--insecure; events: content change, mode change, cache expiry, kill between the cache writes; BFS to depth 5 (9) with state deduplication (fixpoint reported). The same BFS for an `optional: true` include and with --dry / --status invocations (which must approve nothing). Further units: two URLs differing only in the query string; a remote Taskfile including another remote one under silent/refusing/500 servers; a slow include next to a changed, unapproved one (104, not the timeout status); upper/mixed-case http scheme spellings. Oracles: trust (nothing unapproved runs; a declined download ends with 104; 104 only when approval is needed), availability (approved cached copy runs offline / when the server fails), transport (no request without --insecure; 105 where the error can surface), download is cached.",
             note="stdin is not a terminal (a prompt means declined); loopback only."),
}
ALL = ["C%02d" % i for i in range(1, 21)]
REASON_PENDING = "check not built yet in this round (planned in DESIGN.md section 5); not claimed"
def main():
    checks = []
    for pid in ALL:
        if pid not in CHECKS: continue
        c = CHECKS[pid]
        checks.append({
            "property_id": pid,
            "quick_cmd": f"bin/vcheck {pid} --tier quick",
            "thorough_cmd": f"bin/vcheck {pid} --tier thorough",
            "evidence_file": f"/verif/evidence/{pid}.json",
            "replay_cmd_template": "bin/vcheck replay {path}",
            "engine": c["engine"],
            "level_claimed": {"category": c.get("level", "model_checking"), "text": c["text"], "design_ref": f"DESIGN.md section 5 ({pid})"},
            "level_note": c["note"],
            "technique": c["technique"],
        })
    m = {
        "version": 1,
        "setup_cmd": f"cd /verif && {ENV} go build -o bin/ ./cmd/... && bin/vcheck warm",
        "hooks": {
            "guard": "verif",
            "enable": "no source hooks: instrumentation is applied at build time by cmd/vrewrite + go build -overlay (sync/atomic/errgroup/context/channel/go/map-range redirected to shims under /verif/shim, mapped into the module as zverif/...); /repo stays byte-identical",
            "baseline_off_cmd": f"cd /repo && {ENV} go test -vet=off -count=1 -timeout 25m ./...",
            "source_commits": [],
            "add_only": True,
        },
        "engines": [
            {"name": "A", "path": "/verif/shim/vsched + /verif/harness/vlab", "serves_properties": ["C01","C02","C03","C06","C07","C09","C11","C13","C14","C17","C18"], "kind_free_text": "cooperative scheduler + stateless DFS explorer on the real implementation"},
            {"name": "C", "path": "/verif/harness/props/c08.go c10.go c15.go c16.go c19.go", "serves_properties": ["C08","C10","C15","C16","C19","C03"], "kind_free_text": "bounded-exhaustive input/configuration enumeration against reference models"},
            {"name": "D", "path": "/verif/harness/props/c20.go", "serves_properties": ["C20"], "kind_free_text": "explicit-state BFS over remote server x cache x flags"},
            {"name": "B", "path": "/verif/harness/props/hist.go", "serves_properties": ["C04","C05","C12"], "kind_free_text": "explicit-state BFS over histories of file operations and real CLI invocations"},
        ],
        "checks": checks,
        "not_applicable": [{"property_id": p, "reason": REASON_PENDING} for p in ALL if p not in CHECKS],
        "notes": "fix: commits in /repo are listed in /verif/known_findings.jsonl (status fixed).",
    }
    json.dump(m, open("/verif/MANIFEST.json", "w"), indent=1)
    print("checks:", len(checks), "not_applicable:", len(m["not_applicable"]))
main()
