#!/usr/bin/env python3
"""Regenerates /verif/MANIFEST.json from the table below (kept in one place so it is always valid)."""
import json, sys
ENV = "GOFLAGS=-mod=mod GOPROXY=off GOSUMDB=off GOTOOLCHAIN=local"
A = "controlled-scheduler stateless model checking of the real Executor (iterative preemption bounding + happens-before state-key pruning)"
CHECKS = {
 "C01": dict(engine="A", technique=A + "; trace oracle: every dep completed successfully before each command start",
             text="Exhaustive exploration, within the stated preemption bound, of all schedules of the real Executor.Run on a curated family of dependency graphs (diamonds over run-once/when_changed deps, failing shared deps, two-level cancellation, dep+call, parallel roots) x --concurrency {unlimited,1,2}; every command start is checked against the completion of every dep of its task.",
             note="Bounded: programs listed in evidence, preemption bound per unit; interleavings at hooked synchronisation operations and probe writes; commands are mvdan/sh builtins."),
}
ALL = ["C%02d" % i for i in range(1, 21)]
REASON_PENDING = "check not built yet in this round (planned in DESIGN.md section 5); not claimed"
def main():
    checks = []
    for pid in ALL:
        if pid not in CHECKS: continue
        c = CHECKS[pid]
        checks.append({
            "property_id": pid,
            "quick_cmd": f"bin/vcheck {pid} --tier quick",
            "thorough_cmd": f"bin/vcheck {pid} --tier thorough",
            "evidence_file": f"/verif/evidence/{pid}.json",
            "replay_cmd_template": "bin/vcheck replay {path}",
            "engine": c["engine"],
            "level_claimed": {"category": c.get("level", "model_checking"), "text": c["text"], "design_ref": f"DESIGN.md section 5 ({pid})"},
            "level_note": c["note"],
            "technique": c["technique"],
        })
    m = {
        "version": 1,
        "setup_cmd": f"cd /verif && {ENV} go build -o bin/ ./cmd/... && bin/vcheck warm",
        "hooks": {
            "guard": "verif",
            "enable": "no source hooks: instrumentation is applied at build time by cmd/vrewrite + go build -overlay (sync/atomic/errgroup/context/channel/go/map-range redirected to shims under /verif/shim, mapped into the module as zverif/...); /repo stays byte-identical",
            "baseline_off_cmd": f"cd /repo && {ENV} go test -vet=off -count=1 -timeout 25m ./...",
            "source_commits": [],
            "add_only": True,
        },
        "engines": [
            {"name": "A", "path": "/verif/shim/vsched + /verif/harness/vlab", "serves_properties": ["C01","C02","C03","C06","C07","C09","C11","C13","C14","C17","C18"], "kind_free_text": "cooperative scheduler + stateless DFS explorer on the real implementation"},
        ],
        "checks": checks,
        "not_applicable": [{"property_id": p, "reason": REASON_PENDING} for p in ALL if p not in CHECKS],
        "notes": "fix: commits in /repo are listed in /verif/known_findings.jsonl (status fixed).",
    }
    json.dump(m, open("/verif/MANIFEST.json", "w"), indent=1)
    print("checks:", len(checks), "not_applicable:", len(m["not_applicable"]))
main()
