#!/bin/bash
# usage: seedsweep.sh [glob]   (default: all seeds)
# Runs every seeded change against the quick check of its property (on scratch worktrees of /repo HEAD)
# and prints one line per seed: CAUGHT (rc=1), MISSED (rc=0), NOAPPLY (rc=3), or HARNESS (rc=2).
cd /verif
for d in seeded/${1:-C*-[a-d]}; do
  id=$(basename $d); prop=${id%-*}
  out=$(tools/trymutant.sh $d/patch.diff $prop 2>&1)
  if echo "$out" | grep -q "PATCH DOES NOT APPLY"; then echo "$id NOAPPLY"; continue; fi
  rc=$(echo "$out" | grep -o 'rc=[0-9]*' | tail -1)
  sigs=$(echo "$out" | grep -o 'sig=[^ ]*' | sort -u | head -3 | tr '\n' ' ')
  case "$rc" in
    rc=1) st=CAUGHT;; rc=0) st=MISSED;; *) st="HARNESS($rc)";;
  esac
  echo "$id $st $sigs"
done
