#!/bin/bash
# Runs every seeded change against the quick check of its property (on scratch worktrees of /repo HEAD)
# and prints one line per seed: CAUGHT (rc=1), MISSED (rc=0), NOAPPLY, or HARNESS (rc=2).
cd /verif
for d in seeded/C*-[ab]; do
  id=$(basename $d); prop=${id%-*}
  out=$(tools/trymutant.sh $d/patch.diff $prop 2>&1)
  rc=$(echo "$out" | grep -o 'rc=[0-9]*' | tail -1)
  sigs=$(echo "$out" | grep -o 'sig=[^ ]*' | sort -u | head -3 | tr '\n' ' ')
  case "$rc" in
    rc=1) st=CAUGHT;; rc=0) st=MISSED;; rc=3) st=NOAPPLY;; *) st="HARNESS($rc)";;
  esac
  echo "$id $st $sigs"
done
