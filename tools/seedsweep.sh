#!/bin/bash
# usage: tools/seedsweep.sh [-f] [glob]   (default: all seeds)
# Runs every seeded change against the quick check of the property named in its meta.json
# "checked_by" (default: its own property) on a scratch worktree of /repo HEAD and prints one line
# per seed: CAUGHT (rc=1), MISSED (rc=0), NOAPPLY (rc=3) or HARNESS (rc=2); the result is written
# into the seed's meta.json ("check_result"). With -f ("fast") only the unit that caught the seed
# last time is run (--only <unit>), falling back to the whole check when there is none.
cd /verif
fast=0; [ "$1" = "-f" ] && { fast=1; shift; }
for d in seeded/${1:-C*-[a-z]}; do
  id=$(basename $d); prop=${id%-*}
  by=$(python3 -c "import json,sys; m=json.load(open('$d/meta.json')); print(m.get('checked_by') or '$prop')" 2>/dev/null || echo $prop)
  neutral=$(python3 -c "import json; m=json.load(open('$d/meta.json')); print(m.get('neutralised_by',''))" 2>/dev/null)
  if [ -n "$neutral" ]; then echo "$id NEUTRALISED($neutral)"; continue; fi
  only=()
  if [ $fast = 1 ]; then
    u=$(python3 -c "import json; m=json.load(open('$d/meta.json')); print((m.get('check_result') or {}).get('unit',''))" 2>/dev/null)
    [ -n "$u" ] && only=(--only "$u")
  fi
  out=$(tools/trymutant.sh $d/patch.diff $by --stop-on-violation "${only[@]}" 2>&1)
  if echo "$out" | grep -q "PATCH DOES NOT APPLY"; then echo "$id NOAPPLY"; continue; fi
  rc=$(echo "$out" | grep -o 'rc=[0-9]*' | tail -1)
  sigs=$(echo "$out" | grep -o 'sig=[^ ]*' | sort -u | head -3 | tr '\n' ' ')
  unit=$(echo "$out" | grep -o 'unit=[^ ]*' | head -1 | sed 's/^unit=//')
  case "$rc" in
    rc=1) st=CAUGHT;; rc=0) st=MISSED;; *) st="HARNESS($rc)";;
  esac
  echo "$id $st by=$by $sigs"
  python3 - "$d/meta.json" "$st" "$by" "$unit" "$sigs" <<'PY'
import json,sys
p,st,by,unit,sigs=sys.argv[1:6]
m=json.load(open(p))
m['check_result']={'status':st,'check':by,'unit':unit,'signatures':[s[4:] for s in sigs.split()]}
json.dump(m,open(p,'w'),indent=1)
PY
done
