#!/bin/bash
# usage: importseeds.sh <srcdir> <round> <letter-for-a> <letter-for-b>
# copies <srcdir>/Cxx/{a,b} to /verif/seeded/Cxx-<letters> and stamps the round into meta.json
src=$1; round=$2; la=$3; lb=$4
for p in $src/C*/; do
  id=$(basename $p)
  for pair in a:$la b:$lb; do
    x=${pair%%:*}; l=${pair##*:}
    [ -f $p/$x/patch.diff ] || continue
    [ -f $p/$x/meta.json ] || continue
    d=/verif/seeded/$id-$l
    [ -d $d ] && continue
    mkdir -p $d && cp -r $p/$x/. $d/
    python3 - "$d/meta.json" "$round" <<'PY'
import json,sys
p,r=sys.argv[1],int(sys.argv[2])
try: m=json.load(open(p))
except Exception: m={}
m['round']=r
json.dump(m,open(p,'w'),indent=1)
PY
    echo imported $id-$l
  done
done
