#!/bin/bash
# usage: trydemo.sh <seed-dir>  — runs the seed's own demonstration on scratch worktrees of /repo HEAD,
# with and without the change; prints "with=<rc> without=<rc>" (a live seed has with!=0, without=0)
seed=$(readlink -f "$1")
export GOFLAGS=-mod=mod GOPROXY=off GOSUMDB=off GOTOOLCHAIN=local
wt=$(mktemp -d /tmp/demo-XXXXXX)
git -C /repo worktree add -q --detach "$wt" HEAD || exit 2
cleanup() { git -C /repo worktree remove --force "$wt" 2>/dev/null; rm -rf "$wt"; }
trap cleanup EXIT
bash "$seed/demo/RUN.sh" "$wt" >/dev/null 2>&1; without=$?
(cd "$wt" && (git apply "$seed/patch.diff" 2>/dev/null || git apply -C1 "$seed/patch.diff" 2>/dev/null)) || { echo "NOAPPLY without=$without"; exit 3; }
(cd "$wt" && go build ./... ) || { echo "NOBUILD"; exit 4; }
bash "$seed/demo/RUN.sh" "$wt" >/dev/null 2>&1; with=$?
echo "with=$with without=$without"
