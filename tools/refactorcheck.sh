#!/bin/bash
# usage: tools/refactorcheck.sh   — applies each behaviour-preserving refactor of tools/refactors/ to a
# scratch worktree of /repo HEAD and runs the quick checks of the properties it touches: every line
# must say fresh_violations=0 (a report here is a false alarm of the machinery).
cd /verif
declare -A props=( [R1]="C03 C07 C14" [R2]="C07" [R3]="C06 C07 C14" [R4]="C06 C07 C18" )
for f in tools/refactors/R*.diff; do
  r=$(basename $f | cut -d- -f1)
  for p in ${props[$r]}; do
    echo -n "$r $p: "
    tools/trymutant.sh $f $p 2>&1 | grep -E "tier=|PATCH DOES NOT APPLY|build failed" | tail -1
  done
done
