package vsched

import (
	"context"
	"unsafe"
)

type chanMeta struct {
	p  unsafe.Pointer
	o  own
	oh objHash
	cx *Ctx
	// unbuffered channels are emulated: a sender is enabled while more receivers wait than
	// values have been handed over; the real channel carries nothing (it is only closed)
	rwait int
	slot  []any
	sem   byte
}

type sendURef struct{ m *chanMeta }

//go:norace
func (r sendURef) chLen() int { return len(r.m.slot) }

//go:norace
func (r sendURef) chCap() int     { return r.m.rwait }
func (r sendURef) chClosed() bool { return false }

var chanReg []*chanMeta

//go:norace
func chanFor(p unsafe.Pointer) *chanMeta {
	for _, c := range chanReg {
		if c.p == p {
			return c
		}
	}
	c := &chanMeta{p: p}
	chanReg = append(chanReg, c)
	return c
}

type sendRef[T any] struct{ ch chan<- T }

//go:norace
func (r sendRef[T]) chLen() int { return len(r.ch) }

//go:norace
func (r sendRef[T]) chCap() int     { return cap(r.ch) }
func (r sendRef[T]) chClosed() bool { return false }

type recvRef[T any] struct{ ch <-chan T }

//go:norace
func (r recvRef[T]) chLen() int { return len(r.ch) }

//go:norace
func (r recvRef[T]) chCap() int { return cap(r.ch) }

// chClosed is only used for capacity-0 channels on which nobody sends (done channels).
//
//go:norace
func (r recvRef[T]) chClosed() bool {
	select {
	case <-r.ch:
		return true
	default:
		return false
	}
}

// Send replaces `ch <- v`.
//
//go:norace
func Send[T any](ch chan<- T, v T) {
	if S == nil || S.aborting {
		if S != nil {
			// unwinding: never block; drop the value if the buffer is full
			select {
			case ch <- v:
			default:
			}
			return
		}
		ch <- v
		return
	}
	m := chanFor(*(*unsafe.Pointer)(unsafe.Pointer(&ch)))
	if cap(ch) == 0 {
		// rendezvous: enabled once a receiver waits that no earlier send has been matched with
		if m.o.vis() || m.rwait <= len(m.slot) {
			yield(&Op{Kind: OpSend, ch: sendURef{m}}, "chan.send")
		}
		m.oh.touchW(21)
		raceReleaseMerge(unsafe.Pointer(&m.sem))
		m.slot = append(m.slot, v)
		return
	}
	if m.o.vis() || len(ch) >= cap(ch) {
		yield(&Op{Kind: OpSend, ch: sendRef[T]{ch}}, "chan.send")
	}
	m.oh.touchW(21)
	ch <- v
}

// Recv replaces `<-ch` / `v := <-ch`.
//
//go:norace
func Recv[T any](ch <-chan T) T {
	v, _ := RecvOK(ch)
	return v
}

// RecvOK replaces `v, ok := <-ch`.
//
//go:norace
func RecvOK[T any](ch <-chan T) (T, bool) {
	if S == nil || S.aborting {
		if S != nil {
			select {
			case v, ok := <-ch:
				return v, ok
			default:
				var z T
				return z, false
			}
		}
		v, ok := <-ch
		return v, ok
	}
	m := chanFor(*(*unsafe.Pointer)(unsafe.Pointer(&ch)))
	if cap(ch) == 0 && m.cx == nil {
		// unbuffered channel: ready when a sender has handed a value over, or by close
		m.rwait++
		op := &Op{Kind: OpRecvU, ch: recvRef[T]{ch}, cm: m}
		vis := m.o.vis()
		raceDisable()
		en := op.enabled()
		raceEnable()
		if vis || !en {
			yield(op, "chan.recv")
		}
		m.rwait--
		m.oh.touchW(23)
		if len(m.slot) > 0 {
			v := m.slot[0]
			m.slot = m.slot[1:]
			raceAcquire(unsafe.Pointer(&m.sem))
			t, _ := v.(T)
			return t, true
		}
		v, ok := <-ch // closed
		return v, ok
	}
	if cap(ch) == 0 {
		// a context's done-channel: becomes ready only by close
		op := &Op{Kind: OpDone, ch: recvRef[T]{ch}, cx: m.cx}
		vis := false
		if m.cx != nil {
			vis = m.cx.touch()
		} else {
			vis = m.o.vis()
		}
		raceDisable()
		en := op.enabled()
		raceEnable()
		if vis || !en {
			yield(op, "chan.done")
		}
		if m.cx != nil {
			m.cx.obs(22)
		} else {
			m.oh.touchR(22)
		}
		v, ok := <-ch
		return v, ok
	}
	if m.o.vis() || len(ch) == 0 {
		yield(&Op{Kind: OpRecv, ch: recvRef[T]{ch}}, "chan.recv")
	}
	raceAcquire(unsafe.Pointer(&m.sem))
	m.oh.touchW(23)
	v, ok := <-ch
	return v, ok
}

// WaitDone replaces `<-ctx.Done()`: a blocking wait for cancellation. It is an
// acquire-like operation (enabled once the context is cancelled) and does not make the
// waiter a *reader* that a later cancellation could race with.
//
//go:norace
func WaitDone(ctx context.Context) {
	c := ctxOf(ctx)
	ok := c != nil
	if !ok || S == nil || S.aborting {
		if S != nil && S.aborting {
			return
		}
		<-ctx.Done()
		return
	}
	op := &Op{Kind: OpDone, cx: c}
	raceDisable()
	en := op.enabled()
	raceEnable()
	vis := S.cfg.AllVisible
	for p := c; p != nil; p = p.parent {
		if p.w {
			vis = true
		}
	}
	if vis || !en {
		yield(op, "ctx.wait")
	}
	c.obs(22)
	<-c.Context.Done()
}

// Close replaces close(ch): a visible write on the channel (it readies every receiver).
//
//go:norace
func Close[T any](ch chan T) {
	if S != nil && !S.aborting && ch != nil {
		m := chanFor(*(*unsafe.Pointer)(unsafe.Pointer(&ch)))
		if m.o.vis() {
			Yield("chan.close")
		}
		m.oh.touchW(24)
		raceReleaseMerge(unsafe.Pointer(&m.sem))
	}
	close(ch)
}
