package vsched

import (
	"sync"
	"unsafe"
)

// WaitGroup mirrors sync.WaitGroup: Wait is a blocking operation the scheduler knows about
// (a real WaitGroup would park the only running goroutine).
type WaitGroup struct {
	real sync.WaitGroup
	n    int
	o    own
	oh   objHash
	sem  byte
}

//go:norace
func (w *WaitGroup) Add(delta int) {
	if S == nil {
		w.real.Add(delta)
		return
	}
	if S.aborting {
		return
	}
	if w.o.vis() {
		Yield("wg.add")
	}
	w.oh.touchW(61)
	if delta < 0 {
		raceReleaseMerge(unsafe.Pointer(&w.sem))
	}
	w.n += delta
	if w.n < 0 {
		panic("sync: negative WaitGroup counter")
	}
}

//go:norace
func (w *WaitGroup) Done() { w.Add(-1) }

//go:norace
func (w *WaitGroup) Wait() {
	if S == nil {
		w.real.Wait()
		return
	}
	if S.aborting {
		return
	}
	if w.o.vis() || w.n > 0 {
		yield(&Op{Kind: OpWgWait, wg: w}, "wg.wait")
	}
	w.oh.touchW(62)
	raceAcquire(unsafe.Pointer(&w.sem))
}

// Once mirrors sync.Once on top of the scheduler's Mutex (callers that arrive while f runs
// block until it has returned, as with the real one).
type Once struct {
	real sync.Once
	m    Mutex
	done bool
}

//go:norace
func (o *Once) Do(f func()) {
	if S == nil {
		o.real.Do(f)
		return
	}
	if S.aborting {
		return
	}
	o.m.Lock()
	if o.done {
		o.m.Unlock()
		return
	}
	defer o.m.Unlock()
	defer o.markDone()
	f()
}

//go:norace
func (o *Once) markDone() { o.done = true }

// Cond mirrors sync.Cond.
type Cond struct {
	L       sync.Locker
	real    *sync.Cond
	waiters []*condWaiter
	o       own
	oh      objHash
	sem     byte
}

type condWaiter struct{ woken bool }

//go:norace
func NewCond(l sync.Locker) *Cond { return &Cond{L: l, real: sync.NewCond(l)} }

//go:norace
func (c *Cond) Wait() {
	if S == nil {
		c.real.Wait()
		return
	}
	if S.aborting {
		return
	}
	if c.o.vis() {
		Yield("cond.wait") // joining the waiters is itself a visible step (a Signal may come first)
	}
	w := &condWaiter{}
	c.waiters = append(c.waiters, w)
	c.L.Unlock()
	yield(&Op{Kind: OpCondWait, cw: w}, "cond.wait")
	c.oh.touchW(63)
	raceAcquire(unsafe.Pointer(&c.sem))
	c.L.Lock()
}

//go:norace
func (c *Cond) Signal() {
	if S == nil {
		c.real.Signal()
		return
	}
	if S.aborting {
		return
	}
	if c.o.vis() {
		Yield("cond.signal")
	}
	c.oh.touchW(64)
	raceReleaseMerge(unsafe.Pointer(&c.sem))
	if len(c.waiters) > 0 {
		c.waiters[0].woken = true
		c.waiters = c.waiters[1:]
	}
}

//go:norace
func (c *Cond) Broadcast() {
	if S == nil {
		c.real.Broadcast()
		return
	}
	if S.aborting {
		return
	}
	if c.o.vis() {
		Yield("cond.broadcast")
	}
	c.oh.touchW(65)
	raceReleaseMerge(unsafe.Pointer(&c.sem))
	for _, w := range c.waiters {
		w.woken = true
	}
	c.waiters = nil
}
