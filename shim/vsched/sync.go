package vsched

import (
	"sync"
	"unsafe"
)

// Mutex mirrors sync.Mutex. Under the scheduler it never really blocks.
type Mutex struct {
	real   sync.Mutex
	locked bool
	o      own
	oh     objHash
}

//go:norace
func (m *Mutex) Lock() {
	if S == nil {
		m.real.Lock()
		return
	}
	if S.aborting {
		return
	}
	if m.o.vis() || m.locked {
		yield(&Op{Kind: OpMutex, m: m}, "mutex.lock")
	}
	m.locked = true
	m.oh.touchW(11)
	raceAcquire(unsafe.Pointer(m))
}

//go:norace
func (m *Mutex) TryLock() bool {
	if S == nil {
		return m.real.TryLock()
	}
	if S.aborting {
		return true
	}
	if m.o.vis() {
		Yield("mutex.trylock")
	}
	m.oh.touchW(12)
	if m.locked {
		return false
	}
	m.locked = true
	raceAcquire(unsafe.Pointer(m))
	return true
}

//go:norace
func (m *Mutex) Unlock() {
	if S == nil {
		m.real.Unlock()
		return
	}
	if S.aborting {
		return
	}
	if !m.locked {
		panic("vsched: unlock of unlocked Mutex")
	}
	raceRelease(unsafe.Pointer(m))
	m.locked = false
	if S.cfg.YieldAfterRelease && m.o.w {
		Yield("mutex.unlock")
	}
}

// RWMutex mirrors sync.RWMutex. Read-locks commute with each other, so an RWMutex is put
// into W (all operations visible, scenario re-explored) only when it has been write-locked
// AND is touched by threads that are not ordered by creation/termination.
type RWMutex struct {
	real    sync.RWMutex
	w       bool
	r       int
	owner   *Thread
	last    uint64
	sid     uint64
	shared  bool // touched by unordered threads
	written bool // write-locked outside set-up code
	inw     bool
	oh      objHash
	rsem    byte
	wsem    byte
}

// touch returns whether operations on m must be scheduling points.
//
//go:norace
func (m *RWMutex) touch(write bool) bool {
	s := S
	if s.inline > 0 {
		return false
	}
	s.seq++
	t := s.cur
	if m.owner == nil {
		m.owner = t
		t.nobj++
		m.sid = mix(t.lid, t.nobj, 37)
		m.inw = inW(m.sid)
	}
	if !m.shared && m.owner != t {
		if m.owner.done || descendsAfter(t, m.owner, m.last) {
			m.owner = t
		} else {
			m.shared = true
		}
	}
	m.last = s.seq
	if write {
		m.written = true
	}
	if m.shared && m.written && !m.inw {
		m.inw = true
		s.res.NewW = append(s.res.NewW, m.sid)
		if DebugW {
			debugStack("RWMutex is written and shared")
		}
	}
	return m.inw || s.cfg.AllVisible
}

//go:norace
func (m *RWMutex) RLock() {
	if S == nil {
		m.real.RLock()
		return
	}
	if S.aborting {
		return
	}
	if m.touch(false) || m.w {
		yield(&Op{Kind: OpRLock, rw: m}, "rw.rlock")
	}
	m.r++
	m.oh.touchR(13)
	raceAcquire(unsafe.Pointer(&m.rsem))
}

//go:norace
func (m *RWMutex) RUnlock() {
	if S == nil {
		m.real.RUnlock()
		return
	}
	if S.aborting {
		return
	}
	if m.r <= 0 {
		panic("vsched: RUnlock of unlocked RWMutex")
	}
	raceReleaseMerge(unsafe.Pointer(&m.wsem))
	m.r--
	if S.cfg.YieldAfterRelease && m.inw {
		Yield("rw.runlock")
	}
}

//go:norace
func (m *RWMutex) Lock() {
	if S == nil {
		m.real.Lock()
		return
	}
	if S.aborting {
		return
	}
	if m.touch(true) || m.w || m.r > 0 {
		yield(&Op{Kind: OpWLock, rw: m}, "rw.lock")
	}
	m.w = true
	m.oh.touchW(14)
	raceAcquire(unsafe.Pointer(&m.rsem))
	raceAcquire(unsafe.Pointer(&m.wsem))
}

//go:norace
func (m *RWMutex) Unlock() {
	if S == nil {
		m.real.Unlock()
		return
	}
	if S.aborting {
		return
	}
	if !m.w {
		panic("vsched: Unlock of unlocked RWMutex")
	}
	raceRelease(unsafe.Pointer(&m.rsem))
	m.w = false
	if S.cfg.YieldAfterRelease && m.inw {
		Yield("rw.unlock")
	}
}

func (m *RWMutex) RLocker() sync.Locker { return (*rlocker)(m) }

type rlocker RWMutex

func (r *rlocker) Lock()   { (*RWMutex)(r).RLock() }
func (r *rlocker) Unlock() { (*RWMutex)(r).RUnlock() }

// ---- atomics ---------------------------------------------------------------

var atomReg []*atomMeta

type atomMeta struct {
	p  unsafe.Pointer
	o  own
	oh objHash
}

//go:norace
func atomFor(p unsafe.Pointer) *atomMeta {
	for _, a := range atomReg {
		if a.p == p {
			return a
		}
	}
	a := &atomMeta{p: p}
	atomReg = append(atomReg, a)
	return a
}

// AtomicPoint is called by the vatomic shims before the real atomic operation.
//
//go:norace
func AtomicPoint(p unsafe.Pointer, label string) {
	if S == nil || S.aborting {
		return
	}
	a := atomFor(p)
	if a.o.vis() {
		Yield(label)
	}
	a.oh.touchW(15)
}

//go:norace
func resetRegistries() {
	atomReg = atomReg[:0]
	chanReg = chanReg[:0]
}
