//go:build !race

package vsched

import "unsafe"

const RaceEnabled = false

func raceDisable()                      {}
func raceEnable()                       {}
func raceAcquire(p unsafe.Pointer)      {}
func raceRelease(p unsafe.Pointer)      {}
func raceReleaseMerge(p unsafe.Pointer) {}
