// Package vsched is a cooperative scheduler for the goroutines of the code under
// test. Exactly one registered thread runs at a time; before every visible
// synchronisation operation the running thread publishes the operation and the
// scheduler picks (from a recorded prefix, else the canonical default) which
// thread runs next. With no scheduler active every shim delegates to the real
// primitive ("free" mode).
//
// Constraints kept on purpose (race-detector mode): no func literals and no Go
// maps in this file's hot paths; every function is //go:norace; hand-offs are
// wrapped in raceDisable/raceEnable so they create no happens-before edges.
package vsched

import (
	"fmt"
	"os"
	"runtime"
	"sync/atomic"
	"time"
)

type OpKind uint8

const (
	OpStart OpKind = iota
	OpYield
	OpMutex
	OpRLock
	OpWLock
	OpSend
	OpRecv
	OpDone
	OpEgWait
	OpChoose
	OpSelect
	OpWgWait
	OpCondWait
	OpEgSlot
	OpRecvU
)

type chanProbe interface {
	chLen() int
	chCap() int
	chClosed() bool
}

type Op struct {
	Kind OpKind
	m    *Mutex
	rw   *RWMutex
	g    *Group
	ch   chanProbe
	cx   *Ctx
	sel  []SelCase
	def  bool
	wg   *WaitGroup
	cw   *condWaiter
	cm   *chanMeta
}

//go:norace
func (o *Op) enabled() bool {
	switch o.Kind {
	case OpMutex:
		return !o.m.locked
	case OpRLock:
		return !o.rw.w
	case OpWLock:
		return !o.rw.w && o.rw.r == 0
	case OpSend:
		return o.ch.chLen() < o.ch.chCap()
	case OpRecv:
		// (an empty buffered channel is also ready once it is closed; probing is safe when empty)
		return o.ch.chLen() > 0 || o.ch.chClosed()
	case OpRecvU:
		return len(o.cm.slot) > 0 || o.ch.chClosed()
	case OpDone:
		if o.cx != nil {
			return o.cx.isDone()
		}
		return o.ch.chClosed()
	case OpEgWait:
		return o.g.n == 0
	case OpWgWait:
		return o.wg.n == 0
	case OpCondWait:
		return o.cw.woken
	case OpEgSlot:
		return o.g.limit <= 0 || o.g.n < o.g.limit
	case OpSelect:
		if o.def {
			return true
		}
		for i := range o.sel {
			if o.sel[i].dir != 0 && o.sel[i].op.enabled() {
				return true
			}
		}
		return false
	}
	return true
}

type Thread struct {
	ID      int
	lid     uint64 // schedule-independent logical id
	h       uint64 // hash of everything this thread has observed
	wake    chan struct{}
	done    bool
	started bool
	pending *Op
	nspawn  uint64
	nobj    uint64
	parent  *Thread
	spawnAt uint64 // value of sched.seq when this thread was spawned
	fn      func()
	Name    string
}

// Point is one recorded choice point (more than one alternative).
type Point struct {
	N          int    // number of alternatives
	Choice     int    // index taken
	CurEnabled bool   // the running thread was itself enabled (so choice!=0 is a preemption)
	Env        bool   // environment choice (vsched.Choose) rather than a thread switch
	Key        uint64 // happens-before state key at this point
	Label      string
	Tid        int // thread id chosen (thread points)
}

type Config struct {
	Prefix   []int
	MaxSteps int
	// Prune is consulted at every choice point beyond the prefix with the state key and
	// the number of preemptions/deviations spent so far; true abandons the execution.
	Prune func(key uint64, spent int) bool
	// W holds stable ids of RWMutexes that must be fully visible (were write-locked while shared).
	W []uint64
	// AllVisible disables the ownership / read-shared reductions (used by self-tests).
	AllVisible bool
	// EnvChoices enables vsched.Choose / vmap permutations as explored choice points.
	EnvChoices bool
	// YieldAfterRelease makes every release operation on a shared object a scheduling point
	// as well (race-detector mode: what matters there is which plain memory accesses fall
	// between a thread's release and the other thread's acquire).
	YieldAfterRelease bool
	Watchdog          time.Duration
}

type Result struct {
	Points    []Point
	Steps     int
	Threads   int
	Deadlock  bool
	Horizon   bool
	Ops       uint64 // hooked operations executed (visible or not)
	Pruned    bool
	Diverged  string // non-empty: replay diverged (hard harness error)
	Panic     string // panic of the code under test (value + stack)
	NewW      []uint64
	MaxEnable int
	Blocked   []string // on deadlock: description of blocked threads
}

type sched struct {
	cfg      Config
	threads  []*Thread
	cur      *Thread
	res      *Result
	aborting bool
	spent    int
	inline   int
	quiet    int
	finished chan struct{}
	ack      chan struct{}
	stdoutH  uint64
	lastStep int64
	seq      uint64
}

var S *sched

type abortSentinel struct{}

// Active reports whether a scheduled execution is in progress.
//
//go:norace
func Active() bool { return S != nil }

//go:norace
func Aborting() bool { return S != nil && S.aborting }

// Run executes body as thread 0 under the scheduler.
//
//go:norace
func Run(cfg Config, body func()) *Result {
	if S != nil {
		panic("vsched: nested Run")
	}
	if cfg.MaxSteps == 0 {
		cfg.MaxSteps = 200000
	}
	s := &sched{cfg: cfg, res: &Result{}, finished: make(chan struct{}, 1), ack: make(chan struct{})}
	t := &Thread{ID: 0, lid: 0x9e3779b97f4a7c15, h: 1, wake: make(chan struct{}, 1), fn: body, Name: "main", started: true}
	s.threads = append(s.threads, t)
	s.cur = t
	S = s
	resetRegistries()
	if cfg.Watchdog > 0 {
		if atomic.CompareAndSwapInt64(&wdLimit, 0, int64(cfg.Watchdog/time.Second)) {
			go watchdogLoop()
		}
		atomic.AddInt64(&wdGen, 1) // odd: an execution is in progress
	}
	go threadMain(t)
	<-s.finished
	if cfg.Watchdog > 0 {
		atomic.AddInt64(&wdGen, 1)
	}
	s.res.Threads = len(s.threads)
	s.res.Ops = s.seq
	S = nil
	return s.res
}

// The watchdog counts one-second wake-ups during which one and the same execution was in
// progress, instead of arming one long timer per execution: a jump of the clock (the virtual
// machine frozen for a snapshot, a suspended process) then costs one tick, not the whole
// allowance. (A single time.AfterFunc(120 s) fired in every worker at once when the sandbox
// was copied for `vp check` during a thorough run: exit 2 on code that was merely paused.)
var wdGen, wdLimit int64

func watchdogLoop() {
	last, ticks := int64(-1), int64(0)
	for {
		time.Sleep(time.Second)
		g := atomic.LoadInt64(&wdGen)
		if g != last || g%2 == 0 {
			last, ticks = g, 0
			continue
		}
		ticks++
		if ticks >= atomic.LoadInt64(&wdLimit) {
			watchdogFire()
		}
	}
}

func watchdogFire() {
	buf := make([]byte, 1<<20)
	n := runtime.Stack(buf, true)
	if s := S; s != nil {
		fmt.Fprintf(os.Stderr, "vsched: WATCHDOG state: hooked_ops=%d threads=%d inline=%d prefix=%v\n", s.seq, len(s.threads), s.inline, s.cfg.Prefix)
	}
	fmt.Fprintf(os.Stderr, "vsched: WATCHDOG: execution did not finish (unhooked blocking operation?)\n%s\n", buf[:n])
	os.Exit(2)
}

//go:norace
func threadMain(t *Thread) {
	defer threadExit(t)
	if t.ID != 0 {
		raceDisable()
		<-t.wake
		raceEnable()
		t.started = true
		t.pending = nil
		if S.aborting {
			return
		}
	}
	t.fn()
}

//go:norace
func threadExit(t *Thread) {
	s := S
	r := recover()
	if r != nil {
		if _, ok := r.(abortSentinel); !ok {
			if s.res.Panic == "" {
				buf := make([]byte, 16384)
				n := runtime.Stack(buf, false)
				s.res.Panic = fmt.Sprintf("%v\n%s", r, buf[:n])
			}
			if !s.aborting {
				t.done = true
				abortOthers(t)
			}
		}
	}
	t.done = true
	if s.aborting {
		if s.cur == t {
			// we are the aborting thread and everyone else has been unwound
			s.finished <- struct{}{}
		} else {
			s.ack <- struct{}{}
		}
		return
	}
	// normal exit: pick someone else
	next := pick(t, nil, "exit")
	if next == nil {
		if s.aborting {
			// pick() detected deadlock / prune / horizon and has already unwound the others
			s.finished <- struct{}{}
			return
		}
		s.finished <- struct{}{}
		return
	}
	s.cur = next
	raceDisable()
	next.wake <- struct{}{}
	raceEnable()
}

// abortOthers unwinds every other live thread, one at a time.
//
//go:norace
func abortOthers(self *Thread) {
	s := S
	s.aborting = true
	s.cur = self
	for i := 0; i < len(s.threads); i++ {
		o := s.threads[i]
		if o == self || o.done {
			continue
		}
		raceDisable()
		o.wake <- struct{}{}
		<-s.ack
		raceEnable()
	}
}

//go:norace
func abortNow(self *Thread) {
	abortOthers(self)
	panic(abortSentinel{})
}

// pick selects the next thread to run. self is the running thread (its pending op, if any,
// is selfOp; nil means self is exiting). Returns nil when no thread is left or the
// execution is being aborted.
//
//go:norace
func pick(self *Thread, selfOp *Op, label string) *Thread {
	s := S
	s.res.Steps++
	if s.res.Steps > s.cfg.MaxSteps {
		s.res.Horizon = true
		if selfOp == nil {
			self.done = true
			abortOthers(self)
			return nil
		}
		abortNow(self)
	}
	var en [64]*Thread
	n := 0
	curEnabled := false
	raceDisable()
	if selfOp != nil && selfOp.enabled() {
		en[n] = self
		n++
		curEnabled = true
	}
	live := 0
	for _, o := range s.threads {
		if o == self || o.done {
			continue
		}
		live++
		if o.pending == nil || o.pending.enabled() {
			if n < len(en) {
				en[n] = o
				n++
			}
		}
	}
	raceEnable()
	if n > s.res.MaxEnable {
		s.res.MaxEnable = n
	}
	if n == 0 {
		if selfOp == nil && live == 0 {
			return nil // all done
		}
		s.res.Deadlock = true
		s.res.Blocked = describeBlocked(self, selfOp)
		if selfOp == nil {
			self.done = true
			abortOthers(self)
			return nil
		}
		abortNow(self)
	}
	if n == 1 {
		return en[0]
	}
	// a real choice point
	idx := len(s.res.Points)
	choice := 0
	if idx < len(s.cfg.Prefix) {
		choice = s.cfg.Prefix[idx]
		if choice >= n {
			s.res.Diverged = fmt.Sprintf("point %d (%s): prefix wants alternative %d of %d", idx, label, choice, n)
			if selfOp == nil {
				self.done = true
				abortOthers(self)
				return nil
			}
			abortNow(self)
		}
	}
	key := stateKey(self)
	if idx >= len(s.cfg.Prefix) && s.cfg.Prune != nil {
		if s.cfg.Prune(key, s.spent) {
			s.res.Pruned = true
			if selfOp == nil {
				self.done = true
				abortOthers(self)
				return nil
			}
			abortNow(self)
		}
	}
	if curEnabled && choice != 0 {
		s.spent++
	}
	s.res.Points = append(s.res.Points, Point{N: n, Choice: choice, CurEnabled: curEnabled, Key: key, Label: label, Tid: en[choice].ID})
	return en[choice]
}

//go:norace
func describeBlocked(self *Thread, selfOp *Op) []string {
	s := S
	var out []string
	for _, o := range s.threads {
		if o.done {
			continue
		}
		op := o.pending
		if o == self {
			op = selfOp
		}
		k := -1
		if op != nil {
			k = int(op.Kind)
		}
		out = append(out, fmt.Sprintf("thread %d (%s) blocked on opkind %d", o.ID, o.Name, k))
	}
	return out
}

// yield publishes op as the running thread's next visible operation and lets the
// scheduler decide who runs. On return the calling thread is running and op is enabled.
//
//go:norace
func yield(op *Op, label string) {
	s := S
	if s == nil || s.aborting {
		return
	}
	self := s.cur
	self.pending = op
	next := pick(self, op, label)
	if next != self {
		s.cur = next
		raceDisable()
		next.wake <- struct{}{}
		<-self.wake
		raceEnable()
		if s.aborting {
			panic(abortSentinel{})
		}
	}
	self.pending = nil
}

// Cur returns the running thread (nil in free mode).
//
//go:norace
func Cur() *Thread {
	if S == nil {
		return nil
	}
	return S.cur
}

var yieldOp = Op{Kind: OpYield}

// Yield is a plain scheduling point with no enabledness condition.
//
//go:norace
func Yield(label string) {
	if S == nil || S.aborting || S.inline > 0 {
		return
	}
	yield(&yieldOp, label)
	// passing the point is part of what the thread has done: without this, two consecutive
	// plain yields of one thread would have the same state key and the second would be
	// pruned as "already explored"
	t := S.cur
	var lh uint64 = 1469598103934665603
	for i := 0; i < len(label); i++ {
		lh = (lh ^ uint64(label[i])) * 1099511628211
	}
	t.h = mix(t.h, lh, 99)
}

// Go starts fn as a new scheduler thread (a real goroutine in free mode).
//
//go:norace
func Go(fn func()) {
	s := S
	if s == nil {
		go fn()
		return
	}
	if s.aborting {
		return
	}
	if s.inline > 0 {
		fn()
		return
	}
	p := s.cur
	p.nspawn++
	s.seq++
	t := &Thread{ID: len(s.threads), lid: mix(p.lid, p.nspawn, 77), h: mix(p.h, p.nspawn, 78), wake: make(chan struct{}, 1), fn: fn, parent: p, spawnAt: s.seq}
	t.pending = &Op{Kind: OpStart}
	s.threads = append(s.threads, t)
	go threadMain(t)
}

// FilterRecover wraps every recover() of the code under test: the sentinel panic with which
// the scheduler unwinds the threads of an abandoned execution is not for that code to catch.
//
//go:norace
func FilterRecover(r any) any {
	if _, ok := r.(abortSentinel); ok {
		panic(r)
	}
	return r
}

// ExecPoint is inserted at the top of execext.RunCommand: running a shell command takes time,
// so other threads may run before it (dynamic variables, status and precondition commands have
// no other hooked operation inside). Commands whose output goes straight to a harness probe
// already yield at their write.
//
//go:norace
func ExecPoint(stdout any) {
	if S == nil || S.aborting || S.inline > 0 || S.quiet > 0 {
		return
	}
	if _, ok := stdout.(interface{ VerifProbe() }); ok {
		return
	}
	Yield("exec")
}

// Inline makes Go run its function synchronously in the caller (used to keep
// set-up code that happens to use goroutines out of the explored schedule space).
//
//go:norace
func Inline(on bool) {
	if S == nil {
		return
	}
	if on {
		S.inline++
	} else {
		S.inline--
	}
}

// Choose is an environment choice point with n alternatives (default 0). Every
// non-default answer costs one deviation.
//
//go:norace
func Choose(n int, label string) int {
	if S == nil || !S.cfg.EnvChoices {
		return 0
	}
	return chooseAlways(n, label)
}

// chooseAlways is Choose for nondeterminism of the code under test itself (which ready clause
// of a select fires): explored in every unit, whether or not it asks for environment choices.
//
//go:norace
func chooseAlways(n int, label string) int {
	s := S
	if s == nil || s.aborting || n <= 1 {
		return 0
	}
	s.res.Steps++
	idx := len(s.res.Points)
	choice := 0
	if idx < len(s.cfg.Prefix) {
		choice = s.cfg.Prefix[idx]
		if choice >= n {
			s.res.Diverged = fmt.Sprintf("point %d (%s): prefix wants env alternative %d of %d", idx, label, choice, n)
			abortNow(s.cur)
		}
	}
	key := stateKey(s.cur)
	if idx >= len(s.cfg.Prefix) && s.cfg.Prune != nil && s.cfg.Prune(key, s.spent) {
		s.res.Pruned = true
		abortNow(s.cur)
	}
	if choice != 0 {
		s.spent++
	}
	s.res.Points = append(s.res.Points, Point{N: n, Choice: choice, CurEnabled: true, Env: true, Key: key, Label: label, Tid: s.cur.ID})
	t := s.cur
	t.h = mix(t.h, uint64(choice), 91)
	return choice
}

// ---- hashing -------------------------------------------------------------

//go:norace
func mix(a, b, c uint64) uint64 {
	x := a ^ (b+0x9e3779b97f4a7c15+(a<<6)+(a>>2))*0xbf58476d1ce4e5b9
	x ^= x >> 29
	x = (x ^ c*0x94d049bb133111eb) * 0xff51afd7ed558ccd
	x ^= x >> 32
	return x
}

//go:norace
func stateKey(chooser *Thread) uint64 {
	s := S
	var k uint64
	for _, t := range s.threads {
		st := uint64(1)
		if t.done {
			st = 2
		} else if !t.started {
			st = 3
		}
		k += mix(t.lid, t.h, st)
	}
	return mix(k, chooser.lid, uint64(s.spentEnvSalt()))
}

//go:norace
func (s *sched) spentEnvSalt() int { return 0 }

// objHash is the per-object part of the happens-before hash.
type objHash struct {
	h    uint64
	racc uint64 // commutative accumulation of readers since the last write
}

// touchW: the running thread performs a write-like access to the object.
//
//go:norace
func (o *objHash) touchW(code uint64) {
	s := S
	if s == nil {
		return
	}
	t := s.cur
	cur := o.h + o.racc*0x9e3779b97f4a7c15
	t.h = mix(t.h, cur, code)
	o.h = mix(cur, t.h, code)
	o.racc = 0
}

// touchR: a read-like access (reads commute with each other).
//
//go:norace
func (o *objHash) touchR(code uint64) {
	s := S
	if s == nil {
		return
	}
	t := s.cur
	t.h = mix(t.h, o.h, code)
	o.racc += mix(t.h, code, 5)
}

// own implements the ownership rule: an object that only one thread has touched so far is
// invisible to the scheduler (its operations commute with everything other threads do). A
// hand-over that is ordered by thread creation or termination (the previous owner touched
// the object for the last time before it spawned the toucher's ancestor, or has exited)
// transfers ownership silently. Any other second toucher makes the object shared: its
// stable id joins the persistent set W and the explorer restarts the scenario with every
// operation on it visible from the start (so no interleaving inside the earlier,
// optimistically invisible operations is lost).
// maxOps bounds the hooked operations of one execution, scheduling points or not.
const maxOps = 1000000

type own struct {
	owner *Thread
	w     bool   // shared: all operations are scheduling points
	sid   uint64 // stable id, assigned at first touch
	last  uint64 // sched.seq of the owner's last touch
}

//go:norace
func descendsAfter(t, owner *Thread, last uint64) bool {
	for c := t; c != nil && c.parent != nil; c = c.parent {
		if c.parent == owner {
			return c.spawnAt > last
		}
	}
	return false
}

//go:norace
func (o *own) vis() bool {
	s := S
	if s == nil || s.aborting || s.inline > 0 {
		return false
	}
	s.seq++
	t := s.cur
	if s.seq > maxOps {
		// far beyond anything a scenario does (unbounded recursion / a loop over hooked operations)
		s.res.Horizon = true
		abortNow(t)
	}
	if o.owner == nil {
		o.owner = t
		t.nobj++
		o.sid = mix(t.lid, t.nobj, 31)
		o.w = inW(o.sid)
	}
	if !o.w && o.owner != t {
		if o.owner.done || descendsAfter(t, o.owner, o.last) {
			o.owner = t
		} else {
			o.w = true
			s.res.NewW = append(s.res.NewW, o.sid)
			if DebugW {
				debugStack("object became shared")
			}
		}
	}
	o.last = s.seq
	return o.w || s.cfg.AllVisible
}

// ObserveStdout folds an event of the shared probe stream into the running thread's
// hash and the stream's hash (different probe orders are different states).
//
//go:norace
func ObserveStdout(ev uint64) {
	s := S
	if s == nil {
		return
	}
	t := s.cur
	t.h = mix(t.h, s.stdoutH, ev)
	s.stdoutH = mix(s.stdoutH, t.h, ev)
}

// Observe folds an arbitrary value into the running thread's hash (e.g. a file-system read).
//
//go:norace
func Observe(v uint64) {
	if S == nil {
		return
	}
	S.cur.h = mix(S.cur.h, v, 97)
}

//go:norace
func inW(sid uint64) bool {
	for _, w := range S.cfg.W {
		if w == sid {
			return true
		}
	}
	for _, w := range S.res.NewW {
		if w == sid {
			return true
		}
	}
	return false
}

// DebugW prints a stack whenever an RWMutex joins the W set.
var DebugW = os.Getenv("VERIF_DEBUG_W") != ""

func debugStack(msg string) {
	buf := make([]byte, 8192)
	n := runtime.Stack(buf, false)
	fmt.Fprintf(os.Stderr, "vsched: %s\n%s\n", msg, buf[:n])
}
