package vsched

import (
	"context"
	"sync"
	"unsafe"

	"golang.org/x/sync/errgroup"
)

// Group mirrors golang.org/x/sync/errgroup.Group (the subset Task uses plus SetLimit/TryGo
// delegated to the real one in free mode only).
type Group struct {
	real   errgroup.Group
	cancel func()
	n      int
	err    error
	o      own
	oh     objHash
	mu     sync.Mutex // free mode only
	sem    byte
	limit  int
}

//go:norace
func WithContext(ctx context.Context) (*Group, context.Context) {
	ctx2, cancel := WithCancel(ctx)
	return &Group{cancel: cancel}, ctx2
}

type egChild struct {
	g *Group
	f func() error
}

//go:norace
func (c *egChild) run() {
	g := c.g
	err := c.f()
	if S == nil || S.aborting {
		if S == nil {
			panic("vsched: scheduled errgroup child finished in free mode")
		}
		g.n--
		return
	}
	// completion is a visible operation on the group (which error is first; the join)
	if g.o.vis() {
		Yield("eg.done")
	}
	g.oh.touchW(51)
	if err != nil && g.err == nil {
		g.err = err
		if g.cancel != nil {
			g.cancel()
		}
	}
	raceReleaseMerge(unsafe.Pointer(&g.sem))
	g.n--
}

//go:norace
func (g *Group) Go(f func() error) {
	if S == nil {
		g.mu.Lock()
		first := g.cancel
		g.mu.Unlock()
		g.real.Go(func() error {
			err := f()
			if err != nil && first != nil {
				g.mu.Lock()
				if g.err == nil {
					g.err = err
					first()
				}
				g.mu.Unlock()
			}
			return err
		})
		return
	}
	if S.aborting {
		return
	}
	if vis := g.o.vis(); g.limit > 0 && (vis || g.n >= g.limit) {
		// SetLimit: Go blocks until a running function of the group has returned
		yield(&Op{Kind: OpEgSlot, g: g}, "eg.go")
		raceAcquire(unsafe.Pointer(&g.sem))
	}
	g.n++
	c := &egChild{g: g, f: f}
	Go(c.run)
}

// TryGo starts f only if the group's limit allows it now.
//
//go:norace
func (g *Group) TryGo(f func() error) bool {
	if S == nil {
		return g.real.TryGo(f)
	}
	if S.aborting {
		return false
	}
	if g.o.vis() {
		Yield("eg.trygo")
	}
	g.oh.touchW(53)
	if g.limit > 0 && g.n >= g.limit {
		return false
	}
	g.n++
	c := &egChild{g: g, f: f}
	Go(c.run)
	return true
}

//go:norace
func (g *Group) Wait() error {
	if S == nil {
		err := g.real.Wait()
		if g.cancel != nil {
			g.cancel()
		}
		return err
	}
	if S.aborting {
		return g.err
	}
	if g.o.vis() || g.n > 0 {
		yield(&Op{Kind: OpEgWait, g: g}, "eg.wait")
	}
	g.oh.touchW(52)
	raceAcquire(unsafe.Pointer(&g.sem))
	if g.cancel != nil {
		g.cancel()
	}
	return g.err
}

func (g *Group) SetLimit(n int) {
	g.limit = n
	if S == nil {
		g.real.SetLimit(n)
	}
}
