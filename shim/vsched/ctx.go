package vsched

import (
	"context"
	"time"
	"unsafe"
)

// Ctx wraps a real stdlib context so that Done(), Err() and cancellation are visible to
// the scheduler. It embeds the real context, so stdlib children still link to it without
// helper goroutines (Value(&cancelCtxKey) passes through and Done() returns the real channel).
type Ctx struct {
	context.Context
	oh       objHash
	parent   *Ctx
	sid      uint64
	w        bool // a cancellation raced with readers: reads and the cancel are scheduling points
	touchers []*Thread
	// cancelled is set by the cancel shims; isDone walks the wrapper chain instead of calling
	// into the (race-instrumented) stdlib from the scheduler
	cancelled   bool
	hasDeadline bool
}

type wrapperKey struct{}

// Value lets wrap() find the nearest wrapper ancestor through foreign context layers.
func (c *Ctx) Value(key any) any {
	if _, ok := key.(wrapperKey); ok {
		return c
	}
	return c.Context.Value(key)
}

//go:norace
func (c *Ctx) isDone() bool {
	for p := c; p != nil; p = p.parent {
		if p.cancelled {
			return true
		}
		if p.hasDeadline && p.Context.Err() != nil {
			return true
		}
	}
	return false
}

// obs folds this context's and every ancestor's hash into the running thread's hash.
//
//go:norace
func (c *Ctx) obs(code uint64) {
	for p := c; p != nil; p = p.parent {
		p.oh.touchR(code)
	}
}

// touch registers the running thread as a reader of c and its ancestors and reports
// whether the read must be a scheduling point. Reads of a context commute with each other;
// they conflict only with a cancellation. A context whose cancellation has never been
// observed to race with a live reader keeps its reads invisible; the first racing cancel
// puts the context into the persistent set W and the scenario is re-explored.
//
//go:norace
func (c *Ctx) touch() bool {
	s := S
	t := s.cur
	vis := s.cfg.AllVisible
	for p := c; p != nil; p = p.parent {
		if p.w {
			vis = true
		}
		found := false
		for _, x := range p.touchers {
			if x == t {
				found = true
				break
			}
		}
		if !found {
			p.touchers = append(p.touchers, t)
		}
	}
	return vis
}

//go:norace
func (c *Ctx) inChainOf(d *Ctx) bool {
	for p := d; p != nil; p = p.parent {
		if p == c {
			return true
		}
	}
	return false
}

// beforeCancel decides whether this cancellation races with a reader.
//
//go:norace
func (c *Ctx) beforeCancel() {
	s := S
	if !c.w {
		for _, t := range c.touchers {
			if t == s.cur || t.done {
				continue
			}
			if op := t.pending; op != nil && op.Kind == OpDone && op.cx != nil && c.inChainOf(op.cx) {
				continue // blocked waiting for exactly this: becomes enabled, nothing to reorder
			}
			c.w = true
			s.res.NewW = append(s.res.NewW, c.sid)
			if DebugW {
				debugStack("context cancelled while a reader is live")
			}
			break
		}
	}
	if c.w {
		Yield("ctx.cancel")
	}
	c.oh.touchW(43)
}

//go:norace
func (c *Ctx) Done() <-chan struct{} {
	if S != nil && !S.aborting && S.quiet == 0 && S.inline == 0 {
		if c.touch() {
			Yield("ctx.done")
		}
		c.obs(41)
	}
	return c.Context.Done()
}

//go:norace
func (c *Ctx) Err() error {
	if S != nil && !S.aborting && S.quiet == 0 && S.inline == 0 {
		if c.touch() {
			Yield("ctx.err")
		}
		c.obs(42)
	}
	return c.Context.Err()
}

//go:norace
func wrap(parent context.Context, inner context.Context) *Ctx {
	c := &Ctx{Context: inner}
	if p, ok := parent.(*Ctx); ok {
		c.parent = p
	} else if p, ok := parent.Value(wrapperKey{}).(*Ctx); ok {
		c.parent = p
	}
	if S != nil && !S.aborting {
		t := S.cur
		t.nobj++
		c.sid = mix(t.lid, t.nobj, 33)
		c.w = inW(c.sid)
		if d := inner.Done(); d != nil {
			m := chanFor(*(*unsafe.Pointer)(unsafe.Pointer(&d)))
			m.cx = c
		}
	}
	return c
}

type canceler struct {
	c      *Ctx
	cancel context.CancelFunc
}

//go:norace
func (k *canceler) do() {
	if S != nil && !S.aborting && S.inline == 0 {
		k.c.beforeCancel()
	}
	k.c.cancelled = true
	k.cancel()
}

//go:norace
func quietOn() {
	if S != nil {
		S.quiet++
	}
}

//go:norace
func quietOff() {
	if S != nil {
		S.quiet--
	}
}

//go:norace
func WithCancel(parent context.Context) (context.Context, context.CancelFunc) {
	quietOn()
	inner, cancel := context.WithCancel(parent)
	quietOff()
	c := wrap(parent, inner)
	k := &canceler{c: c, cancel: cancel}
	return c, k.do
}

type causeCanceler struct {
	c      *Ctx
	cancel context.CancelCauseFunc
}

//go:norace
func (k *causeCanceler) do(err error) {
	if S != nil && !S.aborting && S.inline == 0 {
		k.c.beforeCancel()
	}
	k.c.cancelled = true
	k.cancel(err)
}

//go:norace
func WithCancelCause(parent context.Context) (context.Context, context.CancelCauseFunc) {
	quietOn()
	inner, cancel := context.WithCancelCause(parent)
	quietOff()
	c := wrap(parent, inner)
	k := &causeCanceler{c: c, cancel: cancel}
	return c, k.do
}

// WithTimeout / WithDeadline: the timer is real time and therefore outside the scheduler;
// harnesses use timeouts far beyond an execution's duration.
//
//go:norace
func WithTimeout(parent context.Context, d time.Duration) (context.Context, context.CancelFunc) {
	quietOn()
	inner, cancel := context.WithTimeout(parent, d)
	quietOff()
	c := wrap(parent, inner)
	c.hasDeadline = true
	k := &canceler{c: c, cancel: cancel}
	return c, k.do
}

//go:norace
func WithDeadline(parent context.Context, t time.Time) (context.Context, context.CancelFunc) {
	quietOn()
	inner, cancel := context.WithDeadline(parent, t)
	quietOff()
	c := wrap(parent, inner)
	c.hasDeadline = true
	k := &canceler{c: c, cancel: cancel}
	return c, k.do
}

// WithoutCancel: values are kept, cancellation is not: the wrapper chain is cut here.
//
//go:norace
func WithoutCancel(parent context.Context) context.Context {
	c := &Ctx{Context: context.WithoutCancel(parent)}
	if S != nil && !S.aborting {
		t := S.cur
		t.nobj++
		c.sid = mix(t.lid, t.nobj, 33)
		c.w = inW(c.sid)
	}
	return c
}

// ctxOf finds the scheduler's wrapper of ctx: ctx itself, or the nearest wrapper below a
// context.WithValue layer (which shares its parent's cancellation).
//
//go:norace
func ctxOf(ctx context.Context) *Ctx {
	if c, ok := ctx.(*Ctx); ok {
		return c
	}
	if ctx == nil {
		return nil
	}
	c, _ := ctx.Value(wrapperKey{}).(*Ctx)
	return c
}

func Background() context.Context { return context.Background() }
func TODO() context.Context       { return context.TODO() }
