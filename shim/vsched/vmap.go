package vsched

import (
	"cmp"
	"fmt"
	"iter"
	"reflect"
	"sort"
)

// MapKeys replaces the key sequence of `range m` for Go maps: keys are visited in a
// canonical (sorted) order by default; with Config.EnvChoices every other order is an
// explored alternative (any order is allowed by the language).
//
//go:norace
func MapKeys[M ~map[K]V, K comparable, V any](m M, site string) []K {
	keys := make([]K, 0, len(m))
	for k := range m {
		keys = append(keys, k)
	}
	sortKeys(keys)
	if S != nil && !S.aborting && S.cfg.EnvChoices && len(keys) > 1 {
		// choose a permutation by successive selection: n * (n-1) * ... alternatives
		for i := 0; i < len(keys)-1; i++ {
			j := Choose(len(keys)-i, "maprange@"+site)
			if j != 0 {
				k := keys[i+j]
				copy(keys[i+1:i+j+1], keys[i:i+j])
				keys[i] = k
			}
		}
	}
	return keys
}

func sortKeys[K comparable](keys []K) {
	switch ks := any(keys).(type) {
	case []string:
		sort.Strings(ks)
		return
	case []int:
		sort.Ints(ks)
		return
	}
	if len(keys) == 0 {
		return
	}
	rv := reflect.ValueOf(keys[0])
	switch rv.Kind() {
	case reflect.String:
		sort.SliceStable(keys, func(i, j int) bool {
			return reflect.ValueOf(keys[i]).String() < reflect.ValueOf(keys[j]).String()
		})
	case reflect.Int, reflect.Int8, reflect.Int16, reflect.Int32, reflect.Int64:
		sort.SliceStable(keys, func(i, j int) bool {
			return reflect.ValueOf(keys[i]).Int() < reflect.ValueOf(keys[j]).Int()
		})
	default:
		sort.SliceStable(keys, func(i, j int) bool {
			return cmp.Less(fmt.Sprintf("%#v", keys[i]), fmt.Sprintf("%#v", keys[j]))
		})
	}
}

// SeqKeys / SeqValues / SeqAll stand in for maps.Keys / maps.Values / maps.All of the standard
// library: the iteration order of a Go map is an explored environment choice there too.
func SeqKeys[M ~map[K]V, K comparable, V any](m M, site string) iter.Seq[K] {
	return func(yield func(K) bool) {
		for _, k := range MapKeys(m, site) {
			if !yield(k) {
				return
			}
		}
	}
}

func SeqValues[M ~map[K]V, K comparable, V any](m M, site string) iter.Seq[V] {
	return func(yield func(V) bool) {
		for _, k := range MapKeys(m, site) {
			if v, ok := m[k]; ok && !yield(v) {
				return
			}
		}
	}
}

func SeqAll[M ~map[K]V, K comparable, V any](m M, site string) iter.Seq2[K, V] {
	return func(yield func(K, V) bool) {
		for _, k := range MapKeys(m, site) {
			if v, ok := m[k]; ok && !yield(k, v) {
				return
			}
		}
	}
}
