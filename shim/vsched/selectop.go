package vsched

import (
	"reflect"
	"unsafe"
)

// SelCase is one communication clause of a rewritten select statement.
type SelCase struct {
	op    Op
	m     *chanMeta
	rc    reflect.SelectCase
	dir   uint8 // 1 send, 2 recv
	unbuf bool  // emulated unbuffered channel (see chanMeta)
	val   any
}

// SelResult is what a rewritten select statement switches on.
type SelResult struct {
	I  int
	v  reflect.Value
	ok bool
}

// CaseSend describes `case ch <- v:`.
//
//go:norace
func CaseSend[T any](ch chan<- T, v T) SelCase {
	c := SelCase{dir: 1, rc: reflect.SelectCase{Dir: reflect.SelectSend, Chan: reflect.ValueOf(ch), Send: reflect.ValueOf(&v).Elem()}}
	if ch == nil {
		c.dir = 0
		return c
	}
	if S != nil && !S.aborting {
		c.m = chanFor(*(*unsafe.Pointer)(unsafe.Pointer(&ch)))
		if cap(ch) == 0 {
			c.op = Op{Kind: OpSend, ch: sendURef{c.m}}
			c.unbuf = true
			c.val = v
		} else {
			c.op = Op{Kind: OpSend, ch: sendRef[T]{ch}}
		}
	}
	return c
}

// CaseRecv describes `case [x[, ok] :=] <-ch:`.
//
//go:norace
func CaseRecv[T any](ch <-chan T) SelCase {
	c := SelCase{dir: 2, rc: reflect.SelectCase{Dir: reflect.SelectRecv, Chan: reflect.ValueOf(ch)}}
	if ch == nil {
		c.dir = 0
		return c
	}
	if S != nil && !S.aborting {
		c.m = chanFor(*(*unsafe.Pointer)(unsafe.Pointer(&ch)))
		if cap(ch) == 0 && c.m.cx == nil {
			c.op = Op{Kind: OpRecvU, ch: recvRef[T]{ch}, cm: c.m}
			c.unbuf = true
		} else if cap(ch) == 0 {
			c.op = Op{Kind: OpDone, ch: recvRef[T]{ch}, cx: c.m.cx}
		} else {
			c.op = Op{Kind: OpRecv, ch: recvRef[T]{ch}}
		}
	}
	return c
}

// Select replaces a select statement: `switch sel_ := vsched_.Select(hasDefault, cases...); sel_.I`.
// Index len(cases) stands for the default clause. Under the scheduler the statement is one
// scheduling point (enabled when some clause is ready or a default exists); which of several
// ready clauses fires is an explored choice (the Go runtime picks one at random). In free
// mode it is a real select over the same channels.
//
//go:norace
func Select(hasDefault bool, cases ...SelCase) *SelResult {
	if S == nil || S.aborting {
		rcs := make([]reflect.SelectCase, 0, len(cases)+1)
		idx := make([]int, 0, len(cases)+1)
		for i := range cases {
			if cases[i].dir == 0 {
				continue // nil channel: never ready
			}
			rcs = append(rcs, cases[i].rc)
			idx = append(idx, i)
		}
		if hasDefault || S != nil {
			// unwinding after an abort must never block
			rcs = append(rcs, reflect.SelectCase{Dir: reflect.SelectDefault})
			idx = append(idx, len(cases))
		}
		i, v, ok := reflect.Select(rcs)
		return &SelResult{I: idx[i], v: v, ok: ok}
	}
	vis := false
	for i := range cases {
		c := &cases[i]
		switch {
		case c.dir == 0:
		case c.op.Kind == OpDone && c.op.cx != nil:
			if c.op.cx.touch() {
				vis = true
			}
		default:
			if c.m.o.vis() {
				vis = true
			}
		}
	}
	op := &Op{Kind: OpSelect, sel: cases, def: hasDefault}
	for i := range cases {
		if cases[i].unbuf && cases[i].dir == 2 {
			cases[i].m.rwait++ // a waiting receiver on each unbuffered receive clause
		}
	}
	raceDisable()
	en := op.enabled()
	raceEnable()
	if vis || !en {
		yield(op, "select")
	}
	for i := range cases {
		if cases[i].unbuf && cases[i].dir == 2 {
			cases[i].m.rwait--
		}
	}
	var ready []int
	raceDisable()
	for i := range cases {
		// a sender that has handed its value to this (then only) waiting receiver has already
		// gone on: the clause it was matched with must fire
		if c := &cases[i]; c.unbuf && c.dir == 2 && len(c.m.slot) > c.m.rwait {
			ready = append(ready, i)
		}
	}
	if len(ready) == 0 {
		for i := range cases {
			if cases[i].dir != 0 && cases[i].op.enabled() {
				ready = append(ready, i)
			}
		}
	}
	raceEnable()
	if len(ready) == 0 {
		return &SelResult{I: len(cases)}
	}
	pick := ready[0]
	if len(ready) > 1 {
		pick = ready[chooseAlways(len(ready), "select.ready")]
	}
	c := &cases[pick]
	switch c.op.Kind {
	case OpSend:
		c.m.oh.touchW(21)
	case OpRecv:
		c.m.oh.touchW(23)
	default:
		if c.op.cx != nil {
			c.op.cx.obs(22)
		} else {
			c.m.oh.touchR(22)
		}
	}
	S.cur.h = mix(S.cur.h, uint64(pick), 93)
	if c.unbuf {
		if c.dir == 1 {
			raceReleaseMerge(unsafe.Pointer(&c.m.sem))
			c.m.slot = append(c.m.slot, c.val)
			return &SelResult{I: pick}
		}
		if len(c.m.slot) > 0 {
			v := c.m.slot[0]
			c.m.slot = c.m.slot[1:]
			raceAcquire(unsafe.Pointer(&c.m.sem))
			return &SelResult{I: pick, v: reflect.ValueOf(v), ok: true}
		}
	}
	// the chosen clause is ready and no other thread runs before it fires
	_, v, ok := reflect.Select([]reflect.SelectCase{c.rc})
	return &SelResult{I: pick, v: v, ok: ok}
}

// SelRecvOK yields what the chosen receive clause received; ch only fixes the type.
//
//go:norace
func SelRecvOK[T any](r *SelResult, ch <-chan T) (T, bool) {
	var z T
	if !r.v.IsValid() {
		return z, r.ok
	}
	reflect.ValueOf(&z).Elem().Set(r.v)
	return z, r.ok
}

//go:norace
func SelRecv[T any](r *SelResult, ch <-chan T) T {
	v, _ := SelRecvOK(r, ch)
	return v
}
