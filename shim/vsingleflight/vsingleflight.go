// Package vsingleflight stands in for golang.org/x/sync/singleflight in rewritten sources (the
// real one parks callers on a sync.WaitGroup the scheduler cannot see).
package vsingleflight

import (
	"github.com/go-task/task/v3/zverif/vsched"
)

type call struct {
	wg    vsched.WaitGroup
	val   any
	err   error
	dups  int
	chans []chan<- Result
}

type Result struct {
	Val    any
	Err    error
	Shared bool
}

type Group struct {
	mu vsched.Mutex
	m  map[string]*call
}

func (g *Group) Do(key string, fn func() (any, error)) (v any, err error, shared bool) {
	g.mu.Lock()
	if g.m == nil {
		g.m = make(map[string]*call)
	}
	if c, ok := g.m[key]; ok {
		c.dups++
		g.mu.Unlock()
		c.wg.Wait()
		return c.val, c.err, true
	}
	c := new(call)
	c.wg.Add(1)
	g.m[key] = c
	g.mu.Unlock()
	g.doCall(c, key, fn)
	return c.val, c.err, c.dups > 0
}

func (g *Group) DoChan(key string, fn func() (any, error)) <-chan Result {
	ch := make(chan Result, 1)
	g.mu.Lock()
	if g.m == nil {
		g.m = make(map[string]*call)
	}
	if c, ok := g.m[key]; ok {
		c.dups++
		c.chans = append(c.chans, ch)
		g.mu.Unlock()
		return ch
	}
	c := &call{chans: []chan<- Result{ch}}
	c.wg.Add(1)
	g.m[key] = c
	g.mu.Unlock()
	vsched.Go(func() { g.doCall(c, key, fn) })
	return ch
}

func (g *Group) doCall(c *call, key string, fn func() (any, error)) {
	c.val, c.err = fn()
	g.mu.Lock()
	if g.m[key] == c {
		delete(g.m, key)
	}
	chans := c.chans
	g.mu.Unlock()
	c.wg.Done()
	for _, ch := range chans {
		vsched.Send(ch, Result{c.val, c.err, c.dups > 0})
	}
}

func (g *Group) Forget(key string) {
	g.mu.Lock()
	delete(g.m, key)
	g.mu.Unlock()
}
