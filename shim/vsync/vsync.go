// Package vsync stands in for "sync" in rewritten sources.
package vsync

import (
	"sync"

	"github.com/go-task/task/v3/zverif/vsched"
)

type (
	Mutex     = vsched.Mutex
	RWMutex   = vsched.RWMutex
	WaitGroup = sync.WaitGroup
	Once      = sync.Once
	Cond      = sync.Cond
	Map       = sync.Map
	Pool      = sync.Pool
	Locker    = sync.Locker
)

func NewCond(l Locker) *Cond { return sync.NewCond(l) }

func OnceFunc(f func()) func() { return sync.OnceFunc(f) }
