// Package vsync stands in for "sync" in rewritten sources.
package vsync

import (
	"sync"

	"github.com/go-task/task/v3/zverif/vsched"
)

type (
	Mutex     = vsched.Mutex
	RWMutex   = vsched.RWMutex
	WaitGroup = vsched.WaitGroup
	Once      = vsched.Once
	Cond      = vsched.Cond
	Map       = sync.Map
	Pool      = sync.Pool
	Locker    = sync.Locker
)

func NewCond(l Locker) *Cond { return vsched.NewCond(l) }

func OnceFunc(f func()) func() {
	var o Once
	return func() { o.Do(f) }
}

func OnceValue[T any](f func() T) func() T {
	var o Once
	var v T
	return func() T {
		o.Do(func() { v = f() })
		return v
	}
}

func OnceValues[T1, T2 any](f func() (T1, T2)) func() (T1, T2) {
	var o Once
	var v1 T1
	var v2 T2
	return func() (T1, T2) {
		o.Do(func() { v1, v2 = f() })
		return v1, v2
	}
}
