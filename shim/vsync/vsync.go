// Package vsync stands in for "sync" in rewritten sources.
package vsync

import (
	"fmt"
	"sort"
	"sync"
	"unsafe"

	"github.com/go-task/task/v3/zverif/vsched"
)

type (
	Mutex     = vsched.Mutex
	RWMutex   = vsched.RWMutex
	WaitGroup = vsched.WaitGroup
	Once      = vsched.Once
	Cond      = vsched.Cond
	Pool      = sync.Pool
	Locker    = sync.Locker
)

func NewCond(l Locker) *Cond { return vsched.NewCond(l) }

func OnceFunc(f func()) func() {
	var o Once
	return func() { o.Do(f) }
}

func OnceValue[T any](f func() T) func() T {
	var o Once
	var v T
	return func() T {
		o.Do(func() { v = f() })
		return v
	}
}

func OnceValues[T1, T2 any](f func() (T1, T2)) func() (T1, T2) {
	var o Once
	var v1 T1
	var v2 T2
	return func() (T1, T2) {
		o.Do(func() { v1, v2 = f() })
		return v1, v2
	}
}

// Map is sync.Map whose operations are scheduling points on the map as one shared object.
type Map struct{ m sync.Map }

func (x *Map) pt(l string)            { vsched.AtomicPoint(unsafe.Pointer(x), l) }
func (x *Map) Load(k any) (any, bool) { x.pt("syncmap.load"); return x.m.Load(k) }
func (x *Map) Store(k, v any)         { x.pt("syncmap.store"); x.m.Store(k, v) }
func (x *Map) Delete(k any)           { x.pt("syncmap.delete"); x.m.Delete(k) }
func (x *Map) Clear()                 { x.pt("syncmap.clear"); x.m.Clear() }
func (x *Map) LoadOrStore(k, v any) (any, bool) {
	x.pt("syncmap.loadorstore")
	return x.m.LoadOrStore(k, v)
}
func (x *Map) LoadAndDelete(k any) (any, bool) {
	x.pt("syncmap.loadanddelete")
	return x.m.LoadAndDelete(k)
}
func (x *Map) Swap(k, v any) (any, bool) { x.pt("syncmap.swap"); return x.m.Swap(k, v) }
func (x *Map) CompareAndSwap(k, o, n any) bool {
	x.pt("syncmap.cas")
	return x.m.CompareAndSwap(k, o, n)
}
func (x *Map) CompareAndDelete(k, o any) bool {
	x.pt("syncmap.cad")
	return x.m.CompareAndDelete(k, o)
}

// Range visits the entries in a canonical order (sorted by the printed key), so that a schedule
// replays identically.
func (x *Map) Range(f func(k, v any) bool) {
	x.pt("syncmap.range")
	type kv struct {
		s    string
		k, v any
	}
	var all []kv
	x.m.Range(func(k, v any) bool { all = append(all, kv{fmt.Sprintf("%T:%v", k, k), k, v}); return true })
	sort.Slice(all, func(i, j int) bool { return all[i].s < all[j].s })
	for _, e := range all {
		x.pt("syncmap.range.step")
		if !f(e.k, e.v) {
			return
		}
	}
}
