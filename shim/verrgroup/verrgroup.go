// Package verrgroup stands in for golang.org/x/sync/errgroup in rewritten sources.
package verrgroup

import (
	"context"

	"github.com/go-task/task/v3/zverif/vsched"
)

type Group = vsched.Group

func WithContext(ctx context.Context) (*Group, context.Context) { return vsched.WithContext(ctx) }
