module zverifshim

go 1.23
