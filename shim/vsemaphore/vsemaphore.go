// Package vsemaphore stands in for golang.org/x/sync/semaphore in rewritten sources.
package vsemaphore

import (
	"context"

	"github.com/go-task/task/v3/zverif/vsched"
)

type waiter struct {
	n     int64
	ready chan struct{}
}

// Weighted mirrors semaphore.Weighted (FIFO waiters; a blocked Acquire ends when its context
// is cancelled) on top of the scheduler's Mutex, channels and Select.
type Weighted struct {
	size    int64
	cur     int64
	mu      vsched.Mutex
	waiters []*waiter
}

func NewWeighted(n int64) *Weighted { return &Weighted{size: n} }

func (s *Weighted) Acquire(ctx context.Context, n int64) error {
	s.mu.Lock()
	if s.size-s.cur >= n && len(s.waiters) == 0 {
		s.cur += n
		s.mu.Unlock()
		return nil
	}
	if n > s.size {
		s.mu.Unlock()
		vsched.WaitDone(ctx)
		return ctx.Err()
	}
	w := &waiter{n: n, ready: make(chan struct{}, 1)}
	s.waiters = append(s.waiters, w)
	s.mu.Unlock()
	r := vsched.Select(false, vsched.CaseRecv(ctx.Done()), vsched.CaseRecv((<-chan struct{})(w.ready)))
	if r.I == 0 {
		s.mu.Lock()
		if len(w.ready) > 0 {
			// granted after the cancellation: keep it, like the real implementation
			s.mu.Unlock()
			return nil
		}
		for i, x := range s.waiters {
			if x == w {
				s.waiters = append(s.waiters[:i], s.waiters[i+1:]...)
				break
			}
		}
		s.notify()
		s.mu.Unlock()
		return ctx.Err()
	}
	return nil
}

func (s *Weighted) TryAcquire(n int64) bool {
	s.mu.Lock()
	defer s.mu.Unlock()
	if s.size-s.cur >= n && len(s.waiters) == 0 {
		s.cur += n
		return true
	}
	return false
}

func (s *Weighted) Release(n int64) {
	s.mu.Lock()
	s.cur -= n
	if s.cur < 0 {
		s.mu.Unlock()
		panic("semaphore: released more than held")
	}
	s.notify()
	s.mu.Unlock()
}

func (s *Weighted) notify() {
	for len(s.waiters) > 0 {
		w := s.waiters[0]
		if s.size-s.cur < w.n {
			break
		}
		s.cur += w.n
		s.waiters = s.waiters[1:]
		vsched.Send((chan<- struct{})(w.ready), struct{}{})
	}
}
