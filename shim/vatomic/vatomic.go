// Package vatomic stands in for "sync/atomic" in rewritten sources.
package vatomic

import (
	"sync/atomic"
	"unsafe"

	"github.com/go-task/task/v3/zverif/vsched"
)

type (
	Int32  = atomic.Int32
	Int64  = atomic.Int64
	Uint32 = atomic.Uint32
	Uint64 = atomic.Uint64
	Bool   = atomic.Bool
	Value  = atomic.Value
)

func AddInt32(p *int32, d int32) int32 {
	vsched.AtomicPoint(unsafe.Pointer(p), "atomic.add")
	return atomic.AddInt32(p, d)
}
func AddInt64(p *int64, d int64) int64 {
	vsched.AtomicPoint(unsafe.Pointer(p), "atomic.add")
	return atomic.AddInt64(p, d)
}
func LoadInt32(p *int32) int32 {
	vsched.AtomicPoint(unsafe.Pointer(p), "atomic.load")
	return atomic.LoadInt32(p)
}
func LoadInt64(p *int64) int64 {
	vsched.AtomicPoint(unsafe.Pointer(p), "atomic.load")
	return atomic.LoadInt64(p)
}
func StoreInt32(p *int32, v int32) {
	vsched.AtomicPoint(unsafe.Pointer(p), "atomic.store")
	atomic.StoreInt32(p, v)
}
func StoreInt64(p *int64, v int64) {
	vsched.AtomicPoint(unsafe.Pointer(p), "atomic.store")
	atomic.StoreInt64(p, v)
}
func CompareAndSwapInt32(p *int32, o, n int32) bool {
	vsched.AtomicPoint(unsafe.Pointer(p), "atomic.cas")
	return atomic.CompareAndSwapInt32(p, o, n)
}
func CompareAndSwapInt64(p *int64, o, n int64) bool {
	vsched.AtomicPoint(unsafe.Pointer(p), "atomic.cas")
	return atomic.CompareAndSwapInt64(p, o, n)
}
