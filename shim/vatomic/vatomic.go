// Package vatomic stands in for "sync/atomic" in rewritten sources.
package vatomic

import (
	"sync/atomic"
	"unsafe"

	"github.com/go-task/task/v3/zverif/vsched"
)

type (
	Value = atomic.Value
)

// The typed atomics are wrappers so that their methods are scheduling points as well.
type Int32 struct{ v atomic.Int32 }

func (x *Int32) pt(l string)        { vsched.AtomicPoint(unsafe.Pointer(x), l) }
func (x *Int32) Load() int32        { x.pt("atomic.load"); return x.v.Load() }
func (x *Int32) Store(n int32)      { x.pt("atomic.store"); x.v.Store(n) }
func (x *Int32) Add(d int32) int32  { x.pt("atomic.add"); return x.v.Add(d) }
func (x *Int32) Swap(n int32) int32 { x.pt("atomic.swap"); return x.v.Swap(n) }
func (x *Int32) CompareAndSwap(o, n int32) bool {
	x.pt("atomic.cas")
	return x.v.CompareAndSwap(o, n)
}

type Int64 struct{ v atomic.Int64 }

func (x *Int64) pt(l string)        { vsched.AtomicPoint(unsafe.Pointer(x), l) }
func (x *Int64) Load() int64        { x.pt("atomic.load"); return x.v.Load() }
func (x *Int64) Store(n int64)      { x.pt("atomic.store"); x.v.Store(n) }
func (x *Int64) Add(d int64) int64  { x.pt("atomic.add"); return x.v.Add(d) }
func (x *Int64) Swap(n int64) int64 { x.pt("atomic.swap"); return x.v.Swap(n) }
func (x *Int64) CompareAndSwap(o, n int64) bool {
	x.pt("atomic.cas")
	return x.v.CompareAndSwap(o, n)
}

type Uint32 struct{ v atomic.Uint32 }

func (x *Uint32) pt(l string)          { vsched.AtomicPoint(unsafe.Pointer(x), l) }
func (x *Uint32) Load() uint32         { x.pt("atomic.load"); return x.v.Load() }
func (x *Uint32) Store(n uint32)       { x.pt("atomic.store"); x.v.Store(n) }
func (x *Uint32) Add(d uint32) uint32  { x.pt("atomic.add"); return x.v.Add(d) }
func (x *Uint32) Swap(n uint32) uint32 { x.pt("atomic.swap"); return x.v.Swap(n) }
func (x *Uint32) CompareAndSwap(o, n uint32) bool {
	x.pt("atomic.cas")
	return x.v.CompareAndSwap(o, n)
}

type Uint64 struct{ v atomic.Uint64 }

func (x *Uint64) pt(l string)          { vsched.AtomicPoint(unsafe.Pointer(x), l) }
func (x *Uint64) Load() uint64         { x.pt("atomic.load"); return x.v.Load() }
func (x *Uint64) Store(n uint64)       { x.pt("atomic.store"); x.v.Store(n) }
func (x *Uint64) Add(d uint64) uint64  { x.pt("atomic.add"); return x.v.Add(d) }
func (x *Uint64) Swap(n uint64) uint64 { x.pt("atomic.swap"); return x.v.Swap(n) }
func (x *Uint64) CompareAndSwap(o, n uint64) bool {
	x.pt("atomic.cas")
	return x.v.CompareAndSwap(o, n)
}

type Bool struct{ v atomic.Bool }

func (x *Bool) pt(l string)      { vsched.AtomicPoint(unsafe.Pointer(x), l) }
func (x *Bool) Load() bool       { x.pt("atomic.load"); return x.v.Load() }
func (x *Bool) Store(n bool)     { x.pt("atomic.store"); x.v.Store(n) }
func (x *Bool) Swap(n bool) bool { x.pt("atomic.swap"); return x.v.Swap(n) }
func (x *Bool) CompareAndSwap(o, n bool) bool {
	x.pt("atomic.cas")
	return x.v.CompareAndSwap(o, n)
}

func AddInt32(p *int32, d int32) int32 {
	vsched.AtomicPoint(unsafe.Pointer(p), "atomic.add")
	return atomic.AddInt32(p, d)
}
func AddInt64(p *int64, d int64) int64 {
	vsched.AtomicPoint(unsafe.Pointer(p), "atomic.add")
	return atomic.AddInt64(p, d)
}
func LoadInt32(p *int32) int32 {
	vsched.AtomicPoint(unsafe.Pointer(p), "atomic.load")
	return atomic.LoadInt32(p)
}
func LoadInt64(p *int64) int64 {
	vsched.AtomicPoint(unsafe.Pointer(p), "atomic.load")
	return atomic.LoadInt64(p)
}
func StoreInt32(p *int32, v int32) {
	vsched.AtomicPoint(unsafe.Pointer(p), "atomic.store")
	atomic.StoreInt32(p, v)
}
func StoreInt64(p *int64, v int64) {
	vsched.AtomicPoint(unsafe.Pointer(p), "atomic.store")
	atomic.StoreInt64(p, v)
}
func CompareAndSwapInt32(p *int32, o, n int32) bool {
	vsched.AtomicPoint(unsafe.Pointer(p), "atomic.cas")
	return atomic.CompareAndSwapInt32(p, o, n)
}
func CompareAndSwapInt64(p *int64, o, n int64) bool {
	vsched.AtomicPoint(unsafe.Pointer(p), "atomic.cas")
	return atomic.CompareAndSwapInt64(p, o, n)
}
